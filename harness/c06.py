"""C06 - emitted JSON-schema is valid, self-consistent and round-trips (DESIGN.md section 6, C06)."""
from collections import OrderedDict

from chx.ob import BOOL, CP, PR, R, STR, U, known_active, ob

EMIT = "cdd.json_schema.utils.emit_utils.param2json_schema_property"
PARSE = "cdd.json_schema.utils.parse_utils.json_schema_property_to_param"
JSON_TYPES = ("string", "number", "integer", "boolean", "object", "array", "null")
SCALARS = ("int", "float", "str", "bool", "dict", "list")


def S(cs):
    s = ""
    for c in cs:
        s = s + chr(c)
    return s


# K1 ------------------------------------------------------------------------------------------------
@ob("C06", "K1.required_iff_not_optional", {"typ": STR(14)}, pre="not typ.startswith('Literal[') and len(typ) > 0", T=120,
    funcs=[EMIT], bound="EVERY type string of 1..14 code points not starting with 'Literal[' (Literal types go through ast.parse: K5)")
def k1(typ):
    from cdd.json_schema.utils.emit_utils import param2json_schema_property

    required = []
    name, prop = param2json_schema_property(("a", {"typ": typ, "doc": "d"}), required)
    listed = len(required) == 1 and required[0] == "a"
    if len(required) > 1:
        return "name listed more than once in required"
    if listed == typ.startswith("Optional["):
        return "required <=> not Optional violated"
    return ""


def _instance_of(value, json_type):
    if json_type == "integer":
        return isinstance(value, int) and not isinstance(value, bool)
    if json_type == "number":
        return isinstance(value, (int, float)) and not isinstance(value, bool)
    if json_type == "string":
        return isinstance(value, str)
    if json_type == "boolean":
        return isinstance(value, bool)
    if json_type == "object":
        return isinstance(value, dict)
    if json_type == "array":
        return isinstance(value, list)
    if json_type == "null":
        return value is None
    return False


def _prop_ok(prop):
    """meta-schema typing of one emitted property (the keywords the emitter uses)"""
    t = prop.get("type")
    ok = False
    for j in JSON_TYPES:
        if t == j:
            ok = True
    if not ok:
        return "emitted type %r is not a JSON-schema type" % (t,)
    if "description" in prop and not isinstance(prop["description"], str):
        return "description is not a string"
    if "pattern" in prop and not isinstance(prop["pattern"], str):
        return "pattern is not a string"
    if "default" in prop and not _instance_of(prop["default"], t):
        return "default %r is not an instance of the emitted type %r" % (prop["default"], t)
    for k in prop:
        if k == "typ" or k == "doc":
            return "IR key %r leaked into the schema" % k
    return ""


FLOATS = (0.0, 0.5, -0.5, 1.0, -1.0, 1e-7, 2.5e3, -3.25)  # floats are a weak target: enumerated, not symbolic


# K2 / K3: per concrete type, symbolic description and default --------------------------------------------
def _mk_k23(typ, optional, with_default):
    full = "Optional[%s]" % typ if optional else typ

    def body(i, b, c0, c1, c2):
        from cdd.json_schema.utils.emit_utils import param2json_schema_property
        from cdd.json_schema.utils.parse_utils import json_schema_property_to_param

        desc = S((c0, c1, c2))
        fl = 0.0
        for k, v in enumerate(FLOATS):
            if i == k:
                fl = v
        default = {"int": i, "float": fl, "str": S((c0, c1)), "bool": b, "dict": {}, "list": []}[typ]
        p = {"typ": full, "doc": desc}
        if with_default:
            p["default"] = default
        required = []
        name, prop = param2json_schema_property(("a", dict(p)), required)
        d = _prop_ok(prop)
        if d:
            return d
        if (len(required) == 1) == optional:
            return "required <=> not Optional violated"
        name2, back = json_schema_property_to_param((name, dict(prop)), frozenset(required))
        if name2 != "a":
            return "name changed"
        if back.get("typ") != full:
            return "type changed on round trip: %r" % (back.get("typ"),)
        if back.get("doc") != desc:
            return "description changed on round trip"
        if with_default:
            if "default" not in back or back["default"] != default or type(back["default"]) is not type(default):
                return "default changed on round trip"
        elif "default" in back:
            return "default invented on round trip"
        for k in back:
            if k != "typ" and k != "doc" and k != "default":
                return "unexpected key %r after round trip" % k
        return ""

    body.__name__ = "K23_%s_%s_%s" % (typ, optional, with_default)
    return body


for _t in SCALARS:
    for _o in (False, True):
        for _d in (False, True):
            ob("C06", "K23.%s%s%s" % (_t, ".opt" if _o else "", ".dflt" if _d else ""),
               {"i": R(-1000, 1000), "b": BOOL, "c0": CP, "c1": CP, "c2": CP}, T=90, funcs=[EMIT, PARSE],
               bound="type %s%s; description = ANY 3 code points; default %s" % (
                   _t, " (Optional)" if _o else "",
                   {"int": "any int -1000..1000", "float": "enumerated list %r selected by the solver" % (FLOATS,), "str": "ANY 2 code points",
                    "bool": "both", "dict": "{}", "list": "[]"}[_t] if _d else "absent"),
               )(_mk_k23(_t, _o, _d))


# K4: whole-schema assembly --------------------------------------------------------------------------------
def _mk_k4(n_params, with_ret):
    def body(c0, c1, c2):
        from cdd.json_schema.emit import json_schema

        doc = S((c0, c1, c2)) if n_params != 9 else ""
        params = OrderedDict()
        names = ("a", "b", "c")
        types = ("int", "Optional[str]", "bool")
        for k in range(n_params % 9):
            params[names[k]] = {"typ": types[k], "doc": "d" + names[k]}
        ir = {"name": "N", "doc": doc, "params": params,
              "returns": OrderedDict((("return_type", {"typ": "int", "doc": "r"}),)) if with_ret else None}
        sch = json_schema(ir)
        if not isinstance(sch, dict):
            return "schema is not an object"
        if "description" in sch and not isinstance(sch["description"], str):
            return "top-level description is %r, not a string (invalid draft 2020-12)" % (sch["description"],)
        if sch.get("type") != "object":
            return "top-level type is not 'object'"
        props = sch.get("properties")
        if not isinstance(props, dict) or list(props.keys()) != list(params.keys()):
            return "properties do not list the parameters in order"
        req = sch.get("required")
        if not isinstance(req, list):
            return "required is not an array"
        for i, r in enumerate(req):
            if r not in props:
                return "required names a property that does not exist"
            if r in req[:i]:
                return "required has duplicates"
        for k, p in props.items():
            d = _prop_ok(p)
            if d:
                return "%s: %s" % (k, d)
            if (k in req) == params_opt(types[names.index(k)]):
                return "required <=> not Optional violated for %s" % k
        return ""

    body.__name__ = "K4_%d_%s" % (n_params, with_ret)
    return body


def params_opt(t):
    return t.startswith("Optional[")


for _n in (0, 1, 3):
    for _r in (False, True):
        ob("C06", "K4.p%d%s" % (_n, ".ret" if _r else ""), {"c0": CP, "c1": CP, "c2": CP}, T=150,
           funcs=["cdd.json_schema.emit.json_schema", EMIT, "cdd.docstring.emit.docstring"],
           bound="%d parameters, %s return entry, prose doc = ANY 3 code points" % (_n, "with" if _r else "without"))(_mk_k4(_n, _r))
ob("C06", "K4.emptydoc", {"c0": R(0, 0), "c1": R(0, 0), "c2": R(0, 0)}, T=60, twin=True,
   funcs=["cdd.json_schema.emit.json_schema"], bound="empty prose doc, no parameters, no return entry")(_mk_k4(9, False))


# K5: Literal => pattern accepting exactly the members (z3 regex query per member set) ------------------------
MEMBER_SETS = [["a"], ["np", "tf"], ["tf", "np"], ["mean", "sum", "none"], ["A", "a"], ["ab", "abc", "b"], ["x", "y", "z", "w"],
               ["v1", "v2"], ["read_only", "read_write"], ["utf-8", "latin-1"], ["1", "2"], ["a b", "c"],
               # members that LOOK like other things: None-ish / boolean / numeric words, Python keywords, type names
               ["None", "all", "some"], ["None"], ["True", "False"], ["null", "none"], ["int", "str"], ["class", "def"], ["0", "15"], ["Optional", "List"]]


def _re_of_pattern(z3, pat):
    """translate the emitted pattern (alternation of literals; metacharacters are rejected) into a z3 regex"""
    for ch in pat:
        if ch in ".*+?()[]{}^$\\":
            return None
    alts = pat.split("|")
    rs = [z3.Re(z3.StringVal(a)) for a in alts]
    return rs[0] if len(rs) == 1 else z3.Union(*rs)


@ob("C06", "K5.literal_pattern", {}, engine="direct", T=60, funcs=[EMIT, PARSE],
    bound="member sets %r; for each: exists x. x in L(pattern) and x not in members  (must be unsat), every member in L(pattern), parse-back gives the same member set" % (MEMBER_SETS,))
def k5():
    import time

    import z3

    from cdd.json_schema.utils.emit_utils import param2json_schema_property
    from cdd.json_schema.utils.parse_utils import json_schema_property_to_param

    q = unsat = 0
    t0 = time.time()
    for members in MEMBER_SETS:
        typ = "Literal[%s]" % ", ".join(repr(m) for m in members)
        required = []
        try:
            _, prop = param2json_schema_property(("a", {"typ": typ, "doc": "d"}), required)
        except Exception as e:
            return {"verdict": "violation", "diag": "emitter raised %s: %s on %s" % (type(e).__name__, e, typ), "cex": {"members": members}}
        pat = prop.get("pattern")
        if not isinstance(pat, str) or prop.get("type") != "string":
            return {"verdict": "violation", "diag": "Literal type %s emitted without a string pattern: %r" % (typ, prop), "cex": {"members": members}}
        rx = _re_of_pattern(z3, pat)
        if rx is None:
            # the pattern uses regex metacharacters although no member of these sets contains one: decide with the pattern's own (JSON-schema/ECMA ~ Python `re`) semantics on the members
            import re as _re

            for m in members:
                try:
                    ok = _re.fullmatch(pat, m) is not None
                except _re.error:
                    ok = False
                if not ok:
                    return {"verdict": "violation", "queries": q, "cex": {"members": members, "m": m}, "diag": "pattern %r of %s rejects its member %r" % (pat, typ, m)}
            return {"verdict": "unknown", "messages": ["pattern %r outside the translated regex subset" % pat]}
        x = z3.String("x")
        s = z3.Solver()
        s.add(z3.InRe(x, rx))
        for m in members:
            s.add(x != z3.StringVal(m))
        q += 1
        r = str(s.check())
        if r == "sat":
            return {"verdict": "violation", "queries": q, "cex": {"members": members, "x": s.model()[x].as_string()},
                    "diag": "pattern %r of %s also accepts %r" % (pat, typ, s.model()[x].as_string())}
        if r != "unsat":
            return {"verdict": "unknown", "messages": ["z3 answered %s" % r]}
        unsat += 1
        for m in members:
            s = z3.Solver()
            s.add(z3.Not(z3.InRe(z3.StringVal(m), rx)))
            q += 1
            r = str(s.check())
            if r == "sat":
                return {"verdict": "violation", "queries": q, "cex": {"members": members, "m": m},
                        "diag": "pattern %r of %s rejects its member %r" % (pat, typ, m)}
            unsat += 1
        _, back = json_schema_property_to_param(("a", dict(prop)), frozenset(required))
        import ast as _ast

        bt = back.get("typ", "")
        try:
            sl = _ast.parse(bt, mode="eval").body.slice if bt.startswith("Literal[") else None
            got = None if sl is None else sorted(e.value for e in (sl.elts if isinstance(sl, _ast.Tuple) else [sl]))
        except Exception:
            got = None
        if got != sorted(set(members)):
            return {"verdict": "violation", "queries": q, "cex": {"members": members},
                    "diag": "Literal members %r came back as %r" % (members, bt)}
    return {"verdict": "confirmed", "queries": q, "unsat": unsat, "solver_s": time.time() - t0,
            "witness": {"members": MEMBER_SETS[1]}}


# K6: the parse side of Literal <-> pattern with SYMBOLIC members (finite alphabet: str.format realises them) -------------------
MALPHA = "aZ1_- "


def _mch(i):
    c = MALPHA[0]
    for k in range(1, len(MALPHA)):
        if i == k:
            c = MALPHA[k]
    return c


@ob("C06", "K6.pattern_to_literal", {"i0": R(0, len(MALPHA) - 1), "i1": R(0, len(MALPHA) - 1), "i2": R(0, len(MALPHA) - 1), "req": BOOL}, T=200, funcs=[PARSE, EMIT],
    bound="members m1 = 2 characters and m2 = 1 character over %r (solver-enumerated): emit Literal[m1, m2] then parse the property back" % MALPHA)
def k6(i0, i1, i2, req):
    import ast as _ast

    from cdd.json_schema.utils.emit_utils import param2json_schema_property
    from cdd.json_schema.utils.parse_utils import json_schema_property_to_param

    m1, m2 = _mch(i0) + _mch(i1), _mch(i2)
    if m1 == m2:
        return ""
    typ = "Literal[%r, %r]" % (m1, m2)
    if not req:
        typ = "Optional[%s]" % typ
    required = []
    try:
        _, prop = param2json_schema_property(("a", {"typ": typ, "doc": "d"}), required)
    except Exception as e:
        return "emitter raised %s: %s" % (type(e).__name__, e)
    if prop.get("pattern") != "|".join(sorted((m1, m2))):
        return "pattern %r is not the sorted alternation of the members" % (prop.get("pattern"),)
    _, back = json_schema_property_to_param(("a", dict(prop)), frozenset(required))
    bt = back.get("typ", "")
    inner = bt[len("Optional["):-1] if bt.startswith("Optional[") else bt
    if (not req) != bt.startswith("Optional["):
        return "Optional-ness changed: %r -> %r" % (typ, bt)
    try:
        sl = _ast.parse(inner, mode="eval").body.slice if inner.startswith("Literal[") else None
        got = None if sl is None else sorted(e.value for e in (sl.elts if isinstance(sl, _ast.Tuple) else [sl]))
    except Exception:
        got = None
    if got != sorted((m1, m2)):
        return "Literal members %r came back as %r" % ((m1, m2), bt)
    if "pattern" in back:
        return "pattern key left over after the round trip"
    return ""


# K7: whole-schema round trip json_schema.parse(json_schema.emit(ir)) with Optional parameters that carry non-None defaults ------------------
@ob("C06", "K7.schema_roundtrip", {"i": R(-2, 2), "b": BOOL, "hasdoc": BOOL, "n": R(1, 5)}, enum=True, T=300, funcs=["cdd.json_schema.emit.json_schema", "cdd.json_schema.parse.json_schema", EMIT, PARSE],
    bound="1..5 parameters out of: Optional[int]=i (i in -2..2), Optional[str]='s', Optional[bool]=b, int=3, Optional[float] without default; prose present or not: "
          "names, order, types (Optional-ness), defaults come back; required == non-Optional names; a second emission lists the same required")
def k7(i, b, hasdoc, n):
    from cdd.json_schema.emit import json_schema as emit
    from cdd.json_schema.parse import json_schema as parse

    allp = [("a", {"typ": "Optional[int]", "doc": "an a", "default": i}), ("b", {"typ": "Optional[str]", "doc": "a b", "default": "s"}),
            ("c", {"typ": "Optional[bool]", "doc": "a c", "default": b}), ("d", {"typ": "int", "doc": "a d", "default": 3}),
            ("e", {"typ": "Optional[float]", "doc": "an e"})]
    ps = OrderedDict((k, dict(v)) for k, v in allp[:n])
    ir = {"name": "N", "doc": "Header." if hasdoc else "", "params": OrderedDict((k, dict(v)) for k, v in ps.items()), "returns": None}
    sch = emit(ir)
    req1 = list(sch["required"])
    back = parse(sch)
    if list(back["params"]) != list(ps):
        return "parameter names/order changed: %r" % (list(back["params"]),)
    for k, v in ps.items():
        g = back["params"][k]
        if g.get("typ") != v["typ"]:
            return "param %s: type changed %r -> %r" % (k, v["typ"], g.get("typ"))
        if ("default" in v) != ("default" in g) or ("default" in v and (g["default"] != v["default"] or type(g["default"]) is not type(v["default"]))):
            return "param %s: default changed %r -> %r" % (k, v.get("default"), g.get("default"))
    want_req = [k for k, v in ps.items() if not v["typ"].startswith("Optional[")]
    if req1 != want_req:
        return "required %r, expected %r" % (req1, want_req)
    req2 = list(emit(back)["required"])
    if req2 != req1:
        return "re-emitting the parsed interface changes required: %r -> %r" % (req1, req2)
    return ""


# K8: 0..8 parameters - ANY subset of eight JSON-representable parameter kinds, defaults on or off per a second mask ---------------------------------------
P8 = (("a", "int", 3), ("b", "Optional[str]", "s"), ("c", "bool", False), ("d", "float", -0.5), ("e", "Literal['np', 'tf']", "tf"), ("f", "list", None),
      ("g", "dict", None), ("h", "Optional[float]", 0.0))


def _k8(lo, hi):
    def body(mask, dsel, x):
        import json

        dmask = 0
        if dsel == 1:
            dmask = 255
        elif dsel == 2:
            dmask = 0b10101010
        elif dsel == 3:
            dmask = 0b01010101

        from cdd.json_schema.emit import json_schema as emit
        from cdd.json_schema.parse import json_schema as parse

        ps = OrderedDict()
        for i, (n, t, d) in enumerate(P8):
            if mask & (1 << i):
                p = {"typ": t, "doc": "the " + (chr(x) if i == 1 or i == 4 else "q") + " one"}
                if d is not None and dmask & (1 << i):
                    p["default"] = d
                ps[n] = p
        ir = {"name": "N", "doc": "Header.", "params": OrderedDict((k, dict(v)) for k, v in ps.items()), "returns": None}
        sch = emit(ir)
        props = sch.get("properties")
        if not isinstance(props, dict) or list(props.keys()) != list(ps.keys()):
            return "properties do not list the parameters in order"
        for k, p in props.items():
            d = _prop_ok(p)
            if d:
                return "%s: %s" % (k, d)
        want_req = [k for k, v in ps.items() if not v["typ"].startswith("Optional[")]
        if list(sch.get("required", ())) != want_req:
            return "required %r, expected %r" % (sch.get("required"), want_req)
        back = parse(sch)
        if list(back["params"]) != list(ps):
            return "parameter names/order changed: %r" % (list(back["params"]),)
        for k, v in ps.items():
            g = back["params"][k]
            gt, vt = g.get("typ"), v["typ"]
            if gt != vt and not (vt.startswith("Literal[") and gt is not None and gt.startswith("Literal[") and sorted(gt[8:-1].split(", ")) == sorted(vt[8:-1].split(", "))):
                return "param %s: type changed %r -> %r" % (k, vt, gt)
            if ("default" in v) != ("default" in g) or ("default" in v and (g["default"] != v["default"] or type(g["default"]) is not type(v["default"]))):
                return "param %s: default changed %r -> %r" % (k, v.get("default"), g.get("default"))
            if (g.get("doc") or "").rstrip(".") != v["doc"].rstrip("."):
                return "param %s: description changed %r -> %r" % (k, v["doc"], g.get("doc"))
        return ""

    body.__name__ = "K8_%d_%d" % (lo, hi)
    return body


for _lo in range(0, 256, 32):
    ob("C06", "K8.subset.m%03d" % _lo, {"mask": R(_lo, _lo + 31), "dsel": R(0, 3), "x": PR}, tier="quick" if _lo in (0, 96, 224) else "thorough", T=900, tpath=60,
       funcs=["cdd.json_schema.emit.json_schema", "cdd.json_schema.parse.json_schema", EMIT, PARSE],
       bound="ANY subset (mask %d..%d of 0..255) of the eight parameters %r, defaults all absent / all present / on the odd / on the even parameters, a symbolic printable character in two descriptions: "
             "properties in order, per-property meta typing, required == non-Optional names, parse(emit(ir)) gives back names, order, types (Literal members as a set), defaults, descriptions"
             % (_lo, _lo + 31, [(n, t) for n, t, _ in P8]))(_k8(_lo, _lo + 31))


# K9: parameter NAMES that other parts of the code base treat specially (kwargs/args suffixes, receiver names, schema keywords, leading underscore/asterisks) ------
NAMES9 = ("g", "loader_kwargs", "kwargs", "args", "x_kwargs_y", "self", "cls", "return_type", "id", "type", "description", "default", "required", "properties", "_p", "N", "$ref",
          "a.b", "*args", "**kw", "pattern", "Optional")
KINDS9 = (("dict", None), ("int", 3), ("Optional[str]", "s"), ("Literal['np', 'tf']", "tf"), ("bool", None), ("Optional[dict]", None))


@ob("C06", "K9.names", {"n": R(0, len(NAMES9) - 1), "k": R(0, len(KINDS9) - 1), "second": BOOL}, enum=True, T=900, tpath=60,
    funcs=["cdd.json_schema.emit.json_schema", "cdd.json_schema.parse.json_schema", EMIT, PARSE],
    bound="one parameter named ANY of %r with type/default ANY of %r, first or second in the interface (solver-enumerated): listed in required exactly when not Optional, "
          "and parse(emit(ir)) returns the same names, order, types and defaults" % (NAMES9, KINDS9))
def k9(n, k, second):
    from cdd.json_schema.emit import json_schema as emit
    from cdd.json_schema.parse import json_schema as parse

    name, (typ, d) = NAMES9[0], KINDS9[0]
    for j in range(1, len(NAMES9)):
        if n == j:
            name = NAMES9[j]
    for j in range(1, len(KINDS9)):
        if k == j:
            typ, d = KINDS9[j]
    p = {"typ": typ, "doc": "the one"}
    if d is not None:
        p["default"] = d
    z = ("z", {"typ": "int", "doc": "zed"})
    ir = {"name": "N", "doc": "Header.", "params": OrderedDict((z, (name, p)) if second else ((name, p), z)), "returns": None}
    want = [x for x in ir["params"] if not ir["params"][x]["typ"].startswith("Optional[")]
    order = list(ir["params"])
    from copy import deepcopy

    sch = emit(deepcopy(ir))  # (whether the emitter leaves its argument alone is C10's hist.shared_ir.*)
    if list(sch.get("required", ())) != want:
        return "required is %r, expected %r (property %r of type %s)" % (sch.get("required"), want, name, typ)
    back = parse(sch)
    if list(back["params"]) != order:
        return "parameter names/order changed: %r -> %r" % (order, list(back["params"]))
    g = back["params"][name]
    if g.get("typ") != typ:
        return "param %s: type changed %r -> %r" % (name, typ, g.get("typ"))
    if ("default" in p) != ("default" in g) or ("default" in p and g["default"] != p["default"]):
        return "param %s: default changed %r -> %r" % (name, p.get("default"), g.get("default"))
    return ""
