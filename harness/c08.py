"""C08 - one conversion round reaches a fixpoint (DESIGN.md section 6, C08)."""
from collections import OrderedDict

from chx.ob import BOOL, CP, PR, R, U, known_active, ob
from harness.formats import FORMAT_FUNCS, FORMATS, hop
from harness.shims import ADHOC_SHIMS_DOC

ASSUMPTIONS = ["AST level hops for the code formats (see C02); round 2 is compared with round 1 exactly (names, order, typ, doc, default value and type, return entry)"]


def S(cs):
    s = ""
    for c in cs:
        s = s + chr(c)
    return s


# K1: idempotence of the normalisers, for all strings of fixed length --------------------------------------------------------
def _k_quote(n):
    def body(*cs):
        from cdd.shared.pure_utils import quote, unquote

        s = S(cs)
        q = quote(s)
        if quote(q) != q:
            return "quote is not idempotent"
        if len(s) > 0 and not (len(s) > 1 and s[0] == s[-1] and (s[0] == "'" or s[0] == '"')) and unquote(q) != s:
            return "unquote(quote(s)) != s for an unquoted s"
        u = unquote(s)
        if len(u) > 1 and u[0] == u[-1] and (u[0] == "'" or u[0] == '"'):
            return ""  # doubly quoted input: one layer per call, by design
        if unquote(u) != u:
            return "unquote is not idempotent on singly-quoted input"
        return ""

    return body


for _n, _tier in ((1, "quick"), (2, "quick"), (3, "quick"), (4, "thorough")):
    ob("C08", "K1.quote.n%d" % _n, {"c%d" % i: CP for i in range(_n)}, tier=_tier, T=200, funcs=["cdd.shared.pure_utils.quote", "cdd.shared.pure_utils.unquote"],
       bound="EVERY string of exactly %d code points" % _n)(_k_quote(_n))


def _k_sdd(n, typ):
    def body(i, *cs):
        from cdd.shared.defaults_utils import set_default_doc

        doc = "x" + S(cs)
        p1 = set_default_doc(("a", {"doc": doc, "typ": typ, "default": i if typ == "int" else "v"}))[1]
        first = p1["doc"]
        p2 = set_default_doc(("a", dict(p1)))[1]
        if p2["doc"] != first:
            return "set_default_doc applied twice appends again: %r -> %r" % (first, p2["doc"])
        return ""

    return body


for _typ in ("int", "str"):
    for _n, _tier in ((1, "quick"), (2, "quick"), (3, "thorough")):
        ob("C08", "K1.set_default_doc.%s.n%d" % (_typ, _n), dict({"i": R(-5, 5)}, **{"c%d" % k: CP for k in range(_n)}), tier=_tier, T=200,
           funcs=["cdd.shared.defaults_utils.set_default_doc"], bound="description 'x' + ANY %d code points, %s default" % (_n, _typ))(_k_sdd(_n, _typ))


def k_optional_guard(c0, c1, was_none):
    """_set_name_and_type never wraps Optional[...] twice"""
    from cdd.shared.docstring_parsers import _set_name_and_type
    import cdd.docstring.utils.parse_utils as pu
    from chx.shim import shim
    from harness.shims import ADHOC_SHIMS

    p = {"typ": "int", "doc": "Optional" + S((c0, c1))}
    if was_none:
        p["default"] = "None"
    with shim(pu, **ADHOC_SHIMS):
        try:
            n1, p1 = _set_name_and_type(("a", dict(p)), infer_type=False, word_wrap=True)
            n2, p2 = _set_name_and_type((n1, dict(p1)), infer_type=False, word_wrap=True)
        except Exception:
            return ""
    if p1.get("typ") != p2.get("typ"):
        return "type drifts on the second application: %r -> %r" % (p1.get("typ"), p2.get("typ"))
    if p1.get("doc") != p2.get("doc"):
        return "description drifts on the second application"
    return ""


ob("C08", "K1.optional_guard", {"c0": CP, "c1": R(32, 32), "was_none": BOOL}, T=300, funcs=["cdd.shared.docstring_parsers._set_name_and_type"],
   assumes=[ADHOC_SHIMS_DOC], bound="description 'Optional' + ANY code point + ' ', None default or not")(k_optional_guard)


# P1: round 2 == round 1 on the conversion pipelines, on a domain WIDER than C01/C02 ----------------------------------------
TRIGGER_DOCS = ("number of things", "whether to do it", "the result,", "list of str", "the dataset name or path.", "first arg", "a `str` or `int`",
                "learning rate, defaults to 1", "see foo; bar:")
TYPES = ("int", "str", "float", "Optional[int]", "List[str]", "dict", "Union[int, str]", "bool", "Optional[float]")
DEFAULTS8 = (0, 1, 0.5, 2, -1.5)  # values that READ differently under another type (0.5 as int, 2 as bool)


def ireq(a, b):
    ka, kb = list(a["params"]), list(b["params"])
    if ka != kb:
        return "parameter names/order drift: %r -> %r" % (ka, kb)
    for k in ka:
        x, y = a["params"][k], b["params"][k]
        for key in ("typ", "doc", "default"):
            if (key in x) != (key in y):
                return "param %s: %s %s in round 2" % (k, key, "appears" if key in y else "disappears")
            if key in x and (x[key] != y[key] or type(x[key]) is not type(y[key])):
                return "param %s: %s drifts: %r -> %r" % (k, key, x[key], y[key])
    ra, rb = a.get("returns"), b.get("returns")
    if bool(ra) != bool(rb):
        return "return entry %s in round 2" % ("appears" if rb else "disappears")
    if ra and dict(ra.get("return_type") or {}) != dict(rb.get("return_type") or {}):
        return "return entry drifts: %r -> %r" % (dict(ra["return_type"]), dict(rb["return_type"]))
    return ""


def _p1(fmt, d, keep=False):
    doc = TRIGGER_DOCS[d]

    def body(t, i, nonsuffix):
        typ = TYPES[0]
        for k in range(1, len(TYPES)):
            if t == k:
                typ = TYPES[k]
        a = {"typ": typ, "doc": doc}
        b = {"typ": "int", "doc": "second arg"}
        dv = DEFAULTS8[0]
        for k in range(1, len(DEFAULTS8)):
            if i == k:
                dv = DEFAULTS8[k]
        if nonsuffix:
            a["default"] = dv  # default in NON-suffix position
        else:
            b["default"] = dv if isinstance(dv, int) else int(dv)
        ir0 = {"name": "C", "doc": "Header line.", "type": "static", "params": OrderedDict((("a", a), ("b", b))),
               "returns": OrderedDict((("return_type", {"typ": "int", "doc": "the result"}),))}
        try:
            r1 = hop(fmt, ir0, keep_prose=keep)
        except Exception:
            return ""  # the first round may reject (outside the exact domain); drift is about what it accepts
        try:
            r2 = hop(fmt, r1, keep_prose=keep)
        except Exception as e:
            return "round 2 raised %s: %s on the output of round 1" % (type(e).__name__, e)
        return ireq(r1, r2)

    return body


for _fmt in FORMATS:
    for _d in range(len(TRIGGER_DOCS)):
        ob("C08", "P1.round2.%s.d%d" % (_fmt, _d), {"t": R(0, len(TYPES) - 1), "i": R(0, len(DEFAULTS8) - 1), "nonsuffix": BOOL}, enum=True,
           tier="quick" if _d < 4 else "thorough", T=500, tpath=120, funcs=FORMAT_FUNCS[_fmt], assumes=[ADHOC_SHIMS_DOC],
           bound="description %r x types %r x default among %r in suffix or NON-suffix position, return entry; round 2 == round 1 (solver-enumerated)" % (TRIGGER_DOCS[_d], TYPES, DEFAULTS8))(_p1(_fmt, _d))


for _d in range(len(TRIGGER_DOCS)):
    ob("C08", "P1.round2.docstring.keep.d%d" % _d, {"t": R(0, len(TYPES) - 1), "i": R(0, len(DEFAULTS8) - 1), "nonsuffix": BOOL}, enum=True,
       tier="quick" if _d < 4 else "thorough", T=500, tpath=120, funcs=FORMAT_FUNCS["docstring"], assumes=[ADHOC_SHIMS_DOC],
       bound="as P1.round2.docstring.d%d with the docstring parser's own default emit_default_doc=True (the 'Defaults to' prose stays in the description): round 2 == round 1" % _d)(_p1("docstring", _d, True))


# json_schema: round n+1 == round n for 3 rounds, JSON-representable types incl. Literal members with regex-special characters ------------
JTYPES = ("int", "str", "Optional[float]", "Literal['np', 'tf']", "Literal['np', 'tf.keras']", "Optional[Literal['mean-squared', 'c++']]", "Literal['top k', 'a']", "bool", "dict")


def json_rounds(t, i, withdoc):
    typ = JTYPES[0]
    for k in range(1, len(JTYPES)):
        if t == k:
            typ = JTYPES[k]
    a = {"typ": typ, "doc": "first arg"} if withdoc else {"typ": typ}
    b = {"typ": "int", "doc": "second arg", "default": i}
    ir0 = {"name": "C", "doc": "Header line.", "type": "static", "params": OrderedDict((("a", a), ("b", b))), "returns": None}
    try:
        r1 = hop("json_schema", ir0)
    except Exception:
        return ""
    prev = r1
    for n in (2, 3):
        try:
            nxt = hop("json_schema", prev)
        except Exception as e:
            return "round %d raised %s: %s on the output of round %d" % (n, type(e).__name__, e, n - 1)
        d = ireq(prev, nxt)
        if d:
            return "round %d vs %d: %s" % (n - 1, n, d)
        prev = nxt
    return ""


ob("C08", "P1.rounds.json_schema", {"t": R(0, len(JTYPES) - 1), "i": R(-1, 1), "withdoc": BOOL}, enum=True, T=400, funcs=FORMAT_FUNCS["json_schema"], assumes=[ADHOC_SHIMS_DOC],
   bound="json_schema emit->parse three times on types %r (Literal members with '.', '-', '+', space), int default -1..1, description present or not: each round equals the previous" % (JTYPES,))(json_rounds)


# sqlalchemy: round n+1 == round n for 4 rounds; descriptions with every kind of tail (full stops are stripped and re-added by this format) ---------
SQL_TAILS = ("", ".", "..", "...", " .", ",", "?", ". ", ".)", "etc.")
SQL_TYPES = ("str", "int", "float", "bool", "Optional[str]", "Literal['a', 'b']", "dict", "Optional[int]")
SQL_DFLT = {"str": "v", "int": 3, "float": 0.5, "bool": False, "Optional[str]": "v", "Literal['a', 'b']": "a", "Optional[int]": 2}


def _sql_rounds(variant, symbolic_tail):
    def body(tail, t, dflt, x=46, y=46):
        from harness.c05 import emit_parse

        tl, typ = SQL_TAILS[0], SQL_TYPES[0]
        for k in range(1, len(SQL_TAILS)):
            if tail == k:
                tl = SQL_TAILS[k]
        for k in range(1, len(SQL_TYPES)):
            if t == k:
                typ = SQL_TYPES[k]
        if symbolic_tail:
            tl = chr(x) + chr(y)
        b = {"typ": typ, "doc": "the text" + tl}
        if dflt and typ in SQL_DFLT:
            b["default"] = SQL_DFLT[typ]
        ir0 = {"name": "Config", "doc": "Header line.", "type": "static", "params": OrderedDict((("id", {"typ": "int", "doc": "[PK] the id"}), ("b", b))),
               "returns": OrderedDict((("return_type", {"typ": "int", "doc": "the result", "default": 1}),)) if tail % 2 else None}
        try:
            prev = emit_parse(variant, ir0)[1]
        except Exception:
            return ""  # the first round may reject
        for n in (2, 3, 4):
            try:
                nxt = emit_parse(variant, prev)[1]
            except Exception as e:
                return "round %d raised %s: %s on the output of round %d" % (n, type(e).__name__, e, n - 1)
            d = ireq(prev, nxt)
            if d:
                return "round %d vs %d: %s" % (n - 1, n, d)
            prev = nxt
        return ""

    return body


from harness.c05 import FUNCS as _SQLF  # noqa: E402

for _variant in ("class", "table"):
    for _tl in range(0, len(SQL_TAILS), 3):
        _th = min(_tl + 2, len(SQL_TAILS) - 1)
        ob("C08", "P1.rounds.sqlalchemy_%s.t%d" % (_variant, _tl), {"tail": R(_tl, _th), "t": R(0, len(SQL_TYPES) - 1), "dflt": BOOL}, enum=True, T=900, tpath=120, funcs=_SQLF,
           tier="quick" if _variant == "class" or _tl == 0 else "thorough",
           assumes=[ADHOC_SHIMS_DOC], bound="sqlalchemy %s emit->parse four times: column description 'the text'+tail for tails %r x types %r x with/without default, "
           "return entry present for odd tails: each round equals the previous (solver-enumerated)" % (_variant, SQL_TAILS[_tl:_th + 1], SQL_TYPES))(_sql_rounds(_variant, False))
    ob("C08", "P1.rounds.sqlalchemy_%s.tail2" % _variant, {"tail": R(0, 0), "t": R(0, 1), "dflt": BOOL, "x": PR, "y": PR}, pre="x != 47 and y != 47", T=2400, tpath=120,
       tier="thorough", funcs=_SQLF, assumes=[ADHOC_SHIMS_DOC],
       bound="sqlalchemy %s emit->parse four times: str/int column whose description is 'the text' + ANY two printable characters (except '/'), with/without default" % _variant,
       )(_sql_rounds(_variant, True))


# json_schema with a RETURN entry whose description carries its default in the prose (the format re-derives it every round) -------------------------------------
RET_DOCS = ("the result", "number of folds produced, defaults to 5", "number of folds produced. Defaults to 5", "folds; defaults to 5", "the count, Defaults to 5", "folds:", "the result,",
            "folds: defaults to 5")  # (an announcement in the middle of a clause without punctuation before it - 'the total; it defaults to 5' - gains its full stop one round late: not registered)


def json_ret_rounds(r, opt, withparam):
    typ = "Optional[int]" if opt else "int"
    ps = OrderedDict((("a", {"typ": "int", "doc": "first arg"}),)) if withparam else OrderedDict()
    ir0 = {"name": "C", "doc": "Header line.", "type": "static", "params": ps, "returns": OrderedDict((("return_type", {"typ": typ, "doc": RET_DOCS[r]}),))}
    try:
        prev = hop("json_schema", ir0)
    except Exception:
        return ""
    for n in (2, 3, 4):
        try:
            nxt = hop("json_schema", prev)
        except Exception as e:
            return "round %d raised %s: %s on the output of round %d" % (n, type(e).__name__, e, n - 1)
        d = ireq(prev, nxt)
        if d:
            return "round %d vs %d: %s" % (n - 1, n, d)
        prev = nxt
    return ""


ob("C08", "P1.rounds.json_schema.ret", {"r": R(0, len(RET_DOCS) - 1), "opt": BOOL, "withparam": BOOL}, enum=True, T=400, funcs=FORMAT_FUNCS["json_schema"],
   bound="json_schema emit->parse four times on an interface whose RETURN entry has one of the descriptions %r (default announced in the prose after ',', '.', ';', ':' or not at all), int or "
         "Optional[int]: each round equals the previous" % (RET_DOCS,))(json_ret_rounds)
