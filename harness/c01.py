"""C01 - docstring <-> interface round trip in ReST, Google and NumPy styles (DESIGN.md section 6, C01)."""
from collections import OrderedDict
from copy import deepcopy

from chx.domain import ir_equiv, norm_doc, same_default
from chx.ob import BOOL, CP, PR, R, U, known_active, ob
from chx.shim import shim
from harness.shims import ADHOC_SHIMS, ADHOC_SHIMS_DOC

STYLES = ("rest", "google", "numpydoc")
FUNCS = ["cdd.docstring.emit.docstring", "cdd.shared.docstring_utils.emit_param_str", "cdd.shared.defaults_utils.set_default_doc",
         "cdd.shared.docstring_utils.header_args_footer_to_str", "cdd.docstring.parse.docstring", "cdd.shared.docstring_parsers.parse_docstring",
         "cdd.shared.docstring_parsers._scan_phase_rest", "cdd.shared.docstring_parsers._scan_phase_numpydoc_and_google",
         "cdd.shared.docstring_parsers._parse_phase_rest", "cdd.shared.docstring_parsers._parse_phase_numpydoc_and_google",
         "cdd.docstring.utils.emit_utils.interpolate_defaults", "cdd.shared.defaults_utils.extract_default",
         "cdd.shared.defaults_utils._parse_out_default_and_doc", "cdd.shared.docstring_parsers._set_name_and_type",
         "cdd.shared.docstring_parsers._infer_default", "cdd.docstring.utils.parse_utils.parse_adhoc_doc_for_typ"]
ASSUMPTIONS = ["word_wrap=False in symbolic runs (textwrap.fill goes through `re`, a C boundary)",
               "descriptions compared up to surrounding whitespace and one terminal full stop; str defaults modulo one layer of quotes; None == NoneStr",
               "the round trip parses with emit_default_doc=False so that the 'Defaults to' prose is stripped from the description before comparison"]
SIGMA = "aZ0_- .,:'\"()[]"  # finite alphabet for default TEXT (realised by literal_eval/float: enumerated by the solver)


def S(cs):
    s = ""
    for c in cs:
        s = s + chr(c)
    return s


def sig(i):
    ch = SIGMA[0]
    for k in range(1, len(SIGMA)):
        if i == k:
            ch = SIGMA[k]
    return ch


def roundtrip(ir, style, emit_default_doc, emit_types, word_wrap=False):
    """emit -> parse; returns (diag or None, back)"""
    import cdd.docstring.emit
    import cdd.docstring.parse
    import cdd.docstring.utils.parse_utils as pu

    text = cdd.docstring.emit.docstring(deepcopy(ir), docstring_format=style, word_wrap=word_wrap, emit_types=emit_types,
                                        emit_default_doc=emit_default_doc)
    with shim(pu, **ADHOC_SHIMS):
        try:
            back = cdd.docstring.parse.docstring(text, emit_default_doc=False)
        except Exception as e:
            return "the emitted docstring is rejected by the parser: %s: %s" % (type(e).__name__, e), None
    return None, back


def check(ir, style, edd, et, word_wrap=False):
    d, back = roundtrip(ir, style, edd, et, word_wrap)
    if d:
        return d
    types_written = et or style == "google"  # the Google emitter always writes the type
    return ir_equiv(ir, back, types=types_written, defaults=edd, typ_may_be_inferred=True)


def mk_ir(params, ret=None, doc="Header line."):
    return {"name": None, "doc": doc, "type": "static", "params": OrderedDict(params),
            "returns": OrderedDict((("return_type", ret),)) if ret else None}


CONFIGS = [(s, edd, et) for s in STYLES for edd in (True, False) for et in (True, False)]


def _cfg_tag(style, edd, et):
    return "%s.%s.%s" % (style, "dflt" if edd else "nodflt", "types" if et else "notypes")


# P1.desc: one symbolic character inside a parameter description -----------------------------------------------
def _p1_desc(style, edd, et):
    def body(x):
        return check(mk_ir([("a", {"typ": "int", "doc": "The " + chr(x) + "a"})]), style, edd, et)

    return body


# P1.int: int default, with and without declared type -----------------------------------------------------------
def _p1_int(style, edd, et, typed):
    def body(i):
        p = {"doc": "first arg", "default": i}
        if typed:
            p["typ"] = "int"
        return check(mk_ir([("a", p)]), style, edd, et)

    return body


# P1.str: str default over the finite alphabet ------------------------------------------------------------------
def _p1_str(style, edd, et, n):
    def body(i0, i1):
        v = ""
        for i in (i0, i1):
            v = v + sig(i)
        return check(mk_ir([("a", {"typ": "str", "doc": "first arg", "default": v})]), style, edd, et)

    return body


# P1.ret: return description ---------------------------------------------------------------------------------------
def _p1_ret(style, edd, et):
    def body(x, y):
        return check(mk_ir([("a", {"typ": "int", "doc": "first arg"})], ret={"typ": "bool", "doc": "the " + chr(x) + chr(y)}), style, edd, et)

    return body


# P1.two: two parameters, the second with default (suffix-legal) + other scalar kinds -----------------------------
def _p1_two(style, edd, et):
    def body(kind, b, i):
        dv = {0: i, 1: b, 2: None, 3: 0.5, 4: -2.5, 5: 1e20, 6: 1e-07, 7: -2.5e-07, 8: 1e16, 9: "5", 10: "-0.5", 11: "True", 12: "abc", 13: "7"}
        tv = {0: "int", 1: "bool", 2: "Optional[int]", 3: "float", 4: "float", 5: "float", 6: "float", 7: "float", 8: "Optional[float]",
              9: "Union[int, str]", 10: "Optional[Union[str, float]]", 11: "Union[bool, str]", 12: "Union[int, str]", 13: "str"}
        d, t = dv[0], tv[0]
        for k in range(1, 14):
            if kind == k:
                d, t = dv[k], tv[k]
        return check(mk_ir([("a", {"typ": "str", "doc": "first arg"}), ("b", {"typ": t, "doc": "second arg", "default": d})]), style, edd, et)

    return body


F21_DOC = "numpydoc with emit_types=False, or an untyped parameter in numpydoc, is known finding F21 (names are only written on the type line)"
for _s, _edd, _et in CONFIGS:
    _t = _cfg_tag(_s, _edd, _et)
    if _s == "numpydoc" and not _et:
        continue  # F21: every input fails; one witness obligation below
    ob("C01", "P1.desc.%s" % _t, {"x": PR}, pre="x != 47", T=150, funcs=FUNCS, assumes=[ADHOC_SHIMS_DOC],
       bound="one parameter a:int, description 'The '+X+'a' for EVERY printable X except '/' (a documented type-hint trigger)")(_p1_desc(_s, _edd, _et))
    for _typed in (True, False):
        if _s == "numpydoc" and not _typed:
            continue  # F21
        ob("C01", "P1.int.%s.%s" % ("typed" if _typed else "untyped", _t), {"i": R(-20, 20)}, enum=True, T=200, tier="quick", funcs=FUNCS, assumes=[ADHOC_SHIMS_DOC],
           bound="one parameter with int default in -20..20 (solver-enumerated: the text is realised by int()/float()), type %s" % ("int" if _typed else "absent"),
           )(_p1_int(_s, _edd, _et, _typed))
    ob("C01", "P1.str2.%s" % _t, {"i0": R(0, len(SIGMA) - 1), "i1": R(0, len(SIGMA) - 1)}, enum=True, T=400, tier="quick", funcs=FUNCS, assumes=[ADHOC_SHIMS_DOC],
       bound="one parameter a:str with a default of 2 characters over the alphabet %r (solver-enumerated)" % SIGMA)(_p1_str(_s, _edd, _et, 2))
    ob("C01", "P1.ret.%s" % _t, {"x": PR, "y": PR}, pre="x != 47 and y != 47", T=300, tier="quick" if _edd and _et else "thorough", funcs=FUNCS, assumes=[ADHOC_SHIMS_DOC],
       bound="return entry bool with description 'the '+X+Y for EVERY printable X, Y except '/' (a documented type-hint trigger)")(_p1_ret(_s, _edd, _et))
    ob("C01", "P1.two.%s" % _t, {"kind": R(0, 13), "b": BOOL, "i": R(-3, 3)}, enum=True, T=400, funcs=FUNCS, assumes=[ADHOC_SHIMS_DOC],
       bound="two parameters, second with default of kind int(-3..3)/bool/None/0.5/-2.5/1e20/1e-07/-2.5e-07/Optional[float]=1e16 (floats are enumerated: exponent forms with + and -), str defaults that look like numbers/bools under Union[..., str] / str")(_p1_two(_s, _edd, _et))


# P1.dr: a defaulted parameter followed by a return entry (force-future-default must not leak into the return) -----
def _p1_dr(style, edd, et):
    def body(i, x):
        return check(mk_ir([("a", {"typ": "int", "doc": "first arg", "default": i})], ret={"typ": "bool", "doc": "the " + chr(x) + "z"}), style, edd, et)

    return body


# P1.str1/str0: one-character and empty str defaults ------------------------------------------------------------
def _p1_str1(style, edd, et):
    def body(i0, empty):
        return check(mk_ir([("a", {"typ": "str", "doc": "first arg", "default": "" if empty else sig(i0)})]), style, edd, et)

    return body


# K2: names survive (symbolic identifier-shaped names; realised at the final dict insertion) -------------------------
def _k2(style, edd, et):
    def body(n0):
        name = chr(n0) + "q"
        return check(mk_ir([(name, {"typ": "int", "doc": "first arg"}), ("zz", {"typ": "str", "doc": "second arg"})]), style, edd, et)

    return body


for _s, _edd, _et in CONFIGS:
    if _s == "numpydoc" and not _et:
        continue
    _t = _cfg_tag(_s, _edd, _et)
    ob("C01", "P1.dr.%s" % _t, {"i": R(-2, 2), "x": PR}, pre="x != 47", T=500 if _s == "rest" else 240, tier="thorough" if _s == "rest" and _edd else "quick", funcs=FUNCS, assumes=[ADHOC_SHIMS_DOC],
       bound="a:int with default -2..2 followed by a return entry bool with description 'the '+X+'z'")(_p1_dr(_s, _edd, _et))
    ob("C01", "P1.str1.%s" % _t, {"i0": R(0, len(SIGMA) - 1), "empty": BOOL}, enum=True, T=200, funcs=FUNCS, assumes=[ADHOC_SHIMS_DOC],
       bound="a:str with the empty default or a 1-character default over %r" % SIGMA)(_p1_str1(_s, _edd, _et))
    ob("C01", "K2.names.%s" % _t, {"n0": R(97, 122)}, enum=True, T=400, tier="quick", funcs=FUNCS, assumes=[ADHOC_SHIMS_DOC],
       bound="first parameter named <letter>q for EVERY lower-case letter (names are dict keys: realised, solver-enumerated), followed by a second parameter")(_k2(_s, _edd, _et))


# P1.wrap: word_wrap=True with the description LENGTH chosen by the solver (the wrap column falls at every place of the prose) ------
WORDS = ("lorem ipsum dolor sit amet consectetur adipiscing elit sed do eiusmod tempor incididunt ut labore et dolore magna aliqua "
         "ut enim ad minim veniam quis nostrud exercitation ullamco laboris nisi ut aliquip ex ea commodo consequat duis aute irure")


def _p1_wrap(style, et, lo, hi):
    def body(L, neg):
        desc = WORDS[:lo].rstrip()
        for k in range(lo + 1, hi + 1):
            if L == k:
                desc = WORDS[:k].rstrip()
        ir = mk_ir([("beta", {"typ": "int", "doc": desc, "default": -42 if neg else 7}), ("gamma", {"typ": "str", "doc": "last one", "default": "z"})])
        return check(ir, style, True, et, word_wrap=True)

    return body


for _s in ("rest", "google"):
    for _et in (True, False):
        for _lo, _hi, _tier in ((60, 100, "quick"), (100, 200, "quick")):
            ob("C01", "P1.wrap.%s.%s.L%d" % (_s, "types" if _et else "notypes", _lo), {"L": R(_lo, _hi), "neg": BOOL}, enum=True, tier=_tier, T=400, tpath=60, funcs=FUNCS,
               assumes=[ADHOC_SHIMS_DOC, "word_wrap=True: textwrap.fill realises its argument, so the description length is enumerated by the solver (every length in the range)"],
               bound="word_wrap=True, first of two parameters with an int default and a description of EVERY length %d..%d (the 100-column wrap falls at every position of '... Defaults to -42')" % (_lo, _hi),
               )(_p1_wrap(_s, _et, _lo, _hi))


# P1.three: three parameters of mixed kinds, two symbolic description characters (thorough) ----------------------------------------------
def _p1_three(style, edd, et):
    def body(x, y, i, b):
        ps = [("alpha", {"typ": "int", "doc": "the " + chr(x) + " value"}),
              ("beta", {"typ": "Optional[str]", "doc": "a " + chr(y) + " thing", "default": None}),
              ("gamma", {"typ": "bool", "doc": "third", "default": b}),
              ("delta", {"typ": "int", "doc": "fourth", "default": i})]
        if style != "rest":
            ps = ps[:1] + [(k, dict(v, default=(v["default"] if v.get("default") is not None else None))) for k, v in ps[1:]]
        return check(mk_ir(ps, ret={"typ": "List[int]", "doc": "the result"}), style, edd, et)

    return body


for _s, _edd, _et in CONFIGS:
    if _s == "numpydoc" and not _et:
        continue
    ob("C01", "P1.three.%s" % _cfg_tag(_s, _edd, _et), {"x": PR, "y": R(97, 97), "i": R(1, 1), "b": BOOL}, pre="x != 47", T=900, tier="thorough", funcs=FUNCS,
       assumes=[ADHOC_SHIMS_DOC], bound="four parameters (int without default, Optional[str]=None, bool, int) with a symbolic description character and a List[int] return entry")(_p1_three(_s, _edd, _et))


# P1.types: the type shapes of the property's quantifier (Literal, List, Union, dotted names, nested Optional) -----------------------------
TYPE_CASES = (("Literal['a', 'b']", "a"), ("Literal['a', 'b']", Ellipsis), ("List[str]", Ellipsis), ("Union[int, str]", 3), ("os.PathLike", Ellipsis),
              ("collections.OrderedDict", Ellipsis), ("Optional[List[int]]", None), ("Dict[str, int]", Ellipsis), ("Optional[Literal['x', 'y']]", None),
              ("Callable[[int], str]", Ellipsis), ("float", 3.0), ("int", 10 ** 20), ("complex", Ellipsis), ("str", "a b"), ("Optional[str]", "x"),
              ("Tuple[int, int]", Ellipsis), ("Optional[Union[int, float]]", 2.5), ("List[Optional[str]]", Ellipsis))


def _p1_types(style, edd, et, lo, hi):
    def body(kind, x):
        t, d = TYPE_CASES[lo]
        for k in range(lo + 1, hi + 1):
            if kind == k:
                t, d = TYPE_CASES[k]
        p = {"typ": t, "doc": "the " + chr(x) + " arg"}
        if d is not Ellipsis:
            p["default"] = d
        first = {"typ": "str", "doc": "first arg"}
        return check(mk_ir([("a", first), ("b", p)], ret={"typ": t, "doc": "same kind"}), style, edd, et)

    return body


for _s, _edd, _et in CONFIGS:
    if _s == "numpydoc" and not _et:
        continue
    for _lo in range(0, len(TYPE_CASES), 3):
        _hi = min(_lo + 2, len(TYPE_CASES) - 1)
        ob("C01", "P1.types.%s.k%d" % (_cfg_tag(_s, _edd, _et), _lo), {"kind": R(_lo, _hi), "x": PR}, pre="x != 47", T=400, tpath=60,
           tier="quick" if (_edd and _et and _s == "rest" and _lo % 6 == 0) else "thorough", funcs=FUNCS, assumes=[ADHOC_SHIMS_DOC],
           bound="two parameters + return entry; the second parameter's (and the return entry's) type is one of %s with/without default; description 'the '+X+' arg' for every printable X except '/'" % ", ".join(t for t, _ in TYPE_CASES[_lo:_hi + 1]),
           )(_p1_types(_s, _edd, _et, _lo, _hi))


# P1.caselen: description characters whose case mappings change the LENGTH of the text (offsets computed on a folded copy drift) ----------------------
CASELEN = tuple(c for c in range(0x110000) if len(chr(c).casefold()) != 1 or len(chr(c).upper()) != 1 or len(chr(c).lower()) != 1)


def _p1_caselen(style, edd, et):
    def body(k, dk):
        c = CASELEN[0]
        for j in range(1, len(CASELEN)):
            if k == j:
                c = CASELEN[j]
        d, t = -5, "int"
        if dk == 1:
            d, t = True, "bool"
        elif dk == 2:
            d, t = "mid", "str"
        elif dk == 3:
            d, t = -0.75, "float"
        return check(mk_ir([("a", {"typ": t, "doc": "Ma" + chr(c) + " value", "default": d}), ("b", {"typ": "int", "doc": "gr" + chr(c) + chr(c) + "er", "default": 12})]), style, edd, et)

    return body


for _s, _edd, _et in CONFIGS:
    if _s == "numpydoc" and not _et:
        continue
    ob("C01", "P1.caselen.%s" % _cfg_tag(_s, _edd, _et), {"k": R(0, len(CASELEN) - 1), "dk": R(0, 3)}, enum=True, T=1500, tpath=60, tier="quick", funcs=FUNCS,
       assumes=[ADHOC_SHIMS_DOC], bound="two defaulted parameters whose descriptions contain ANY of the %d code points whose casefold/upper/lower mapping has a different length "
       "(sharp s, ligatures, dotted capital I, ...; str.casefold realises, so the solver enumerates the table), defaults -5 / True / 'mid' / -0.75 and 12" % len(CASELEN))(_p1_caselen(_s, _edd, _et))


# P1.words: descriptions that merely MENTION default-ish words (without being an announcement of a default) ---------------------------------------------------
WORDS_OK = ("overrides the default backend", "negative means use the library default", "default", "a defaulted value", "value by Default", "fallback when unset", "the to value",
            "if none the default is used, otherwise this", "Default backend label", "nondefault route", "by default")
WORDS_F51 = ("the Defaults file to read", "see defaults", "it Defaults")  # known finding F51


def _p1_words(style, edd, et, words):
    def body(w, dk, second):
        doc = words[0]
        for k in range(1, len(words)):
            if w == k:
                doc = words[k]
        d, t = -1, "int"
        if dk == 1:
            d, t = "tf", "str"
        elif dk == 2:
            d, t = True, "bool"
        elif dk == 3:
            d, t = 0.5, "float"
        a, b = ("a", {"typ": t, "doc": doc, "default": d}), ("b", {"typ": "int", "doc": "second arg", "default": 2})
        return check(mk_ir([b, a] if second else [a, b]), style, edd, et)

    return body


for _s, _edd, _et in CONFIGS:
    if _s == "numpydoc" and not _et:
        continue
    ob("C01", "P1.words.%s" % _cfg_tag(_s, _edd, _et), {"w": R(0, len(WORDS_OK) - 1), "dk": R(0, 3), "second": BOOL}, enum=True, T=600, funcs=FUNCS, assumes=[ADHOC_SHIMS_DOC],
       bound="a defaulted parameter (int / str / bool / float default, first or second) whose description is one of %r - it mentions default-ish words without announcing a default" % (WORDS_OK,),
       )(_p1_words(_s, _edd, _et, WORDS_OK))


def f51_witness(w):
    return _p1_words("rest", True, True, WORDS_F51)(w, 0, False)


ob("C01", "F51.defaults_word", {"w": R(0, len(WORDS_F51) - 1)}, T=60, tier="witness", funcs=FUNCS, twin=False, bound="witness obligation of known finding F51 (not expected to hold)")(f51_witness)


# F39: code-quoted expression defaults lose their code quotes in the prose (witness only) --------------------------------------------------
def f39_witness(kind):
    t, d = (("List[int]", "```[1, 2]```"), ("int", "```max_iter * 2```"), ("dict", "```{}```"))[kind]
    return check(mk_ir([("a", {"typ": "str", "doc": "first arg"}), ("b", {"typ": t, "doc": "second arg", "default": d})]), "rest", True, True)


ob("C01", "F39.code_quoted_default", {"kind": R(0, 2)}, T=60, tier="witness", funcs=FUNCS, twin=False,
   bound="witness obligation of known finding F39 (not expected to hold)")(f39_witness)


# F48/F49: word_wrap=True + long str default / complex default with the prose stripped (witness only) ----------------------------------------------
def f48_witness(k):
    long_text = "By continuing you confirm that you have read and accept the current terms of use before any upload"
    p = {"typ": "str", "doc": "first arg", "default": long_text} if k == 0 else {"typ": "complex", "doc": "first arg", "default": 1j}
    return check(mk_ir([("a", p)]), "rest", True, True, word_wrap=True)


ob("C01", "F48.wrapped_str_default", {"k": R(0, 1)}, T=60, tier="witness", funcs=FUNCS, twin=False,
   bound="witness obligation of known findings F48/F49 (not expected to hold)")(f48_witness)


def f21_witness(x):
    return check(mk_ir([("a", {"typ": "int", "doc": "The " + chr(x) + "a"})]), "numpydoc", True, False)


ob("C01", "F21.numpydoc_notypes", {"x": PR}, T=60, tier="witness", funcs=FUNCS, twin=False,
   bound="witness obligation of known finding F21 (not expected to hold)")(f21_witness)
