"""C16 - generated OpenAPI document is closed and matches the requested CRUD (DESIGN.md section 6, C16)."""
from chx.ob import BOOL, CP, PR, R, U, ob

KERNEL = "cdd.compound.openapi.utils.emit_openapi_utils.components_paths_from_name_model_route_id_crud"
LD_DOC = ("containers passed to the kernel are CrossHair's linear-search mappings (ShellMutableMap(SimpleDict)): same MutableMapping "
          "interface, keys compared with ==, so symbolic names/routes are not hashed; replays use plain dicts")


def S(cs):
    s = ""
    for c in cs:
        s = s + chr(c)
    return s


def LD():
    from chx.shim import REPLAYING

    if REPLAYING():
        return {}
    from crosshair.simplestructs import ShellMutableMap, SimpleDict

    return ShellMutableMap(SimpleDict([]))


def crud_of(m):
    return ("C" if m & 1 else "") + ("R" if m & 2 else "") + ("D" if m & 4 else "")


def refs(node, out):
    if isinstance(node, str):
        return
    if hasattr(node, "items"):
        for k, v in node.items():
            if k == "$ref":
                out.append(v)
            else:
                refs(v, out)
    elif isinstance(node, (list, tuple)):
        for v in node:
            refs(v, out)


def closed(components, paths):
    found = []
    refs(paths, found)
    refs(components["requestBodies"], found)
    refs(components["schemas"], found)
    for r in found:
        ok = False
        for section in ("schemas", "requestBodies"):
            prefix = "#/components/%s/" % section
            if r.startswith(prefix):
                if r[len(prefix):] in components[section]:
                    ok = True
        if not ok:
            return "$ref %r does not resolve to a component defined in the document" % (r,)
    return ""


def ops_match(paths, route, pk, m):
    item = route + "/{" + pk + "}"
    want_post = bool(m & 1)
    has_route = route in paths
    if want_post != (has_route and "post" in paths[route]):
        return "Create <=> POST on the collection violated"
    if has_route:
        for verb in paths[route]:
            if verb != "post":
                return "unexpected operation %r on the collection" % (verb,)
    if item not in paths:
        return "item path missing"
    node = paths[item]
    if bool(m & 2) != ("get" in node):
        return "Read <=> GET on the item violated"
    if bool(m & 4) != ("delete" in node):
        return "Delete <=> DELETE on the item violated"
    for verb in node:
        if verb != "get" and verb != "delete" and verb != "parameters":
            return "unexpected key %r on the item path" % (verb,)
    params = node.get("parameters")
    if not params or params[0].get("name") != pk or params[0].get("in") != "path" or params[0].get("required") is not True:
        return "path template parameter is not declared"
    return ""


MODEL = {"$id": "x", "type": "object", "properties": {"id": {"type": "integer"}}, "required": ["id"]}
NOBRACE = " and ".join("c%d != 123 and c%d != 125" % (i, i) for i in range(2, 5))


def _one(nn):
    def body(m, *cs):
        from cdd.compound.openapi.utils.emit_openapi_utils import components_paths_from_name_model_route_id_crud as kernel

        name, route, pk = S(cs[:nn]), "/" + S(cs[nn:nn + 2]), S(cs[nn + 2:nn + 3])
        if name == "ServerError":
            return ""
        comps = {"requestBodies": LD(), "schemas": LD()}
        comps["schemas"]["ServerError"] = {"type": "object"}
        paths = LD()
        kernel(comps, paths, name, MODEL, route, pk, crud_of(m))
        d = closed(comps, paths)
        if d:
            return d
        if name not in comps["schemas"]:
            return "model schema not defined under its name"
        for k in comps["schemas"][name]:
            if k.startswith("$"):
                return "$-keyword leaked into the component schema"
        return ops_match(paths, route, pk, m)

    body.__name__ = "one_model_n%d" % nn
    return body


for _nn, _tier, _T in ((2, "quick", 200), (3, "thorough", 900)):
    _a = dict({"m": R(1, 7)}, **{"c%d" % i: PR for i in range(_nn + 3)})
    ob("C16", "K1.one.n%d" % _nn, _a, tier=_tier, T=_T, funcs=[KERNEL], assumes=[LD_DOC],
       pre=" and ".join("c%d != 123 and c%d != 125" % (i, i) for i in range(_nn, _nn + 3)),
       bound="one model: name = ANY %d printable characters, route = '/' + ANY 2 printable (no braces), id = ANY 1 printable (no braces), every non-empty subset of {C,R,D}" % _nn)(_one(_nn))


def _two():
    def body(m1, m2, a0, a1, b0, b1, r0, r1):
        from cdd.compound.openapi.utils.emit_openapi_utils import components_paths_from_name_model_route_id_crud as kernel

        n1, n2 = S((a0, a1)), S((b0, b1))
        rt1, rt2 = "/" + S((r0,)), "/" + S((r1,))
        if n1 == n2 or rt1 == rt2:
            return ""
        comps = {"requestBodies": LD(), "schemas": LD()}
        comps["schemas"]["ServerError"] = {"type": "object"}
        paths = LD()
        kernel(comps, paths, n1, MODEL, rt1, "id", crud_of(m1))
        kernel(comps, paths, n2, MODEL, rt2, "id", crud_of(m2))
        d = closed(comps, paths)
        if d:
            return d
        if n1 not in comps["schemas"] or n2 not in comps["schemas"]:
            return "a model schema is missing"
        d = ops_match(paths, rt1, "id", m1)
        if d:
            return "model 1: " + d
        d = ops_match(paths, rt2, "id", m2)
        if d:
            return "model 2: " + d
        return ""

    return body


ob("C16", "K1.two", {"m1": R(1, 7), "m2": R(1, 7), "a0": PR, "a1": PR, "b0": PR, "b1": PR, "r0": PR, "r1": PR},
   pre="r0 != 123 and r0 != 125 and r1 != 123 and r1 != 125", tier="quick", T=400, funcs=[KERNEL], assumes=[LD_DOC],
   bound="two models in one document: names = ANY 2 printable characters each (distinct), routes '/'+1 printable each (distinct, no braces), id 'id', every pair of non-empty CRUD subsets")(_two())


# the glue in openapi(): ServerError seeding, top level, JSON serialisability; names concrete, CRUD/arity symbolic -------
NAMES = (("Config", "/api/config", "dataset_name"), ("UserAccount", "/api/user_account", "id"), ("Tbl", "/v1/tbl", "pk"))


def glue(n, m1, m2, m3):  # registered below, once per document size
    import json

    from cdd.compound.openapi.emit import openapi
    from cdd.compound.openapi.utils.emit_openapi_utils import NameModelRouteIdCrud

    ms = (m1, m2, m3)
    doc = openapi([NameModelRouteIdCrud(name=NAMES[i][0], model=dict(MODEL), route=NAMES[i][1], id=NAMES[i][2], crud=crud_of(ms[i]))
                   for i in range(n)])
    try:
        text = json.dumps(doc)
    except (TypeError, ValueError) as e:
        return "document is not serialisable JSON: %s" % e
    if json.loads(text) != doc:
        return "JSON round trip changes the document"
    if "ServerError" not in doc["components"]["schemas"]:
        return "ServerError schema missing"
    d = closed(doc["components"], doc["paths"])
    if d:
        return d
    for i in range(n):
        d = ops_match(doc["paths"], NAMES[i][1], NAMES[i][2], ms[i])
        if d:
            return "%s: %s" % (NAMES[i][0], d)
        if (ms[i] & 1) != (1 if NAMES[i][0] + "Body" in doc["components"]["requestBodies"] else 0):
            return "request body defined <=> Create violated"
    if len(doc["paths"]) != sum((2 if ms[i] & 1 else 1) for i in range(n)):
        return "paths contain entries that were not requested"
    return ""


for _n, _tier, _T in ((1, "quick", 60), (2, "quick", 240), (3, "thorough", 1800)):
    ob("C16", "P1.openapi_glue.n%d" % _n, {"n": R(_n, _n), "m1": R(1, 7), "m2": R(1, 7) if _n > 1 else R(1, 1), "m3": R(1, 7) if _n > 2 else R(1, 1)},
       tier=_tier, T=_T, funcs=["cdd.compound.openapi.emit.openapi", KERNEL],
       bound="cdd.compound.openapi.emit.openapi on %d model(s) with concrete names %r, every combination of non-empty CRUD subsets; real dicts; json.dumps round trip" % (_n, NAMES[:_n]))(glue)
