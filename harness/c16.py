"""C16 - generated OpenAPI document is closed and matches the requested CRUD (DESIGN.md section 6, C16)."""
from chx.ob import BOOL, CP, PR, R, U, ob

KERNEL = "cdd.compound.openapi.utils.emit_openapi_utils.components_paths_from_name_model_route_id_crud"
LD_DOC = ("containers passed to the kernel are CrossHair's linear-search mappings (ShellMutableMap(SimpleDict)): same MutableMapping "
          "interface, keys compared with ==, so symbolic names/routes are not hashed; replays use plain dicts")


def S(cs):
    s = ""
    for c in cs:
        s = s + chr(c)
    return s


def LD():
    from chx.shim import REPLAYING

    if REPLAYING():
        return {}
    from crosshair.simplestructs import ShellMutableMap, SimpleDict

    return ShellMutableMap(SimpleDict([]))


def crud_of(m):
    return ("C" if m & 1 else "") + ("R" if m & 2 else "") + ("D" if m & 4 else "")


def refs(node, out):
    if isinstance(node, str):
        return
    if hasattr(node, "items"):
        for k, v in node.items():
            if k == "$ref":
                out.append(v)
            else:
                refs(v, out)
    elif isinstance(node, (list, tuple)):
        for v in node:
            refs(v, out)


def closed(components, paths):
    found = []
    refs(paths, found)
    refs(components["requestBodies"], found)
    refs(components["schemas"], found)
    for r in found:
        ok = False
        for section in ("schemas", "requestBodies"):
            prefix = "#/components/%s/" % section
            if r.startswith(prefix):
                if r[len(prefix):] in components[section]:
                    ok = True
        if not ok:
            return "$ref %r does not resolve to a component defined in the document" % (r,)
    return ""


def ops_match(paths, route, pk, m, item_always=True):
    item = route + "/{" + pk + "}"
    want_post = bool(m & 1)
    has_route = route in paths
    if want_post != (has_route and "post" in paths[route]):
        return "Create <=> POST on the collection violated"
    if has_route:
        for verb in paths[route]:
            if verb != "post":
                return "unexpected operation %r on the collection" % (verb,)
    if item not in paths:
        if not item_always and not (m & 6):
            return ""  # derived from the route files: no Read/Delete route, no item path
        return "item path missing"
    node = paths[item]
    if bool(m & 2) != ("get" in node):
        return "Read <=> GET on the item violated"
    if bool(m & 4) != ("delete" in node):
        return "Delete <=> DELETE on the item violated"
    for verb in node:
        if verb != "get" and verb != "delete" and verb != "parameters":
            return "unexpected key %r on the item path" % (verb,)
    params = node.get("parameters")
    if not params or params[0].get("name") != pk or params[0].get("in") != "path" or params[0].get("required") is not True:
        return "path template parameter is not declared"
    return ""


MODEL = {"$id": "x", "type": "object", "properties": {"id": {"type": "integer"}}, "required": ["id"]}
NOBRACE = " and ".join("c%d != 123 and c%d != 125" % (i, i) for i in range(2, 5))


def _one(nn):
    def body(m, *cs):
        from cdd.compound.openapi.utils.emit_openapi_utils import components_paths_from_name_model_route_id_crud as kernel

        name, route, pk = S(cs[:nn]), "/" + S(cs[nn:nn + 2]), S(cs[nn + 2:nn + 3])
        if name == "ServerError":
            return ""
        comps = {"requestBodies": LD(), "schemas": LD()}
        comps["schemas"]["ServerError"] = {"type": "object"}
        paths = LD()
        kernel(comps, paths, name, MODEL, route, pk, crud_of(m))
        d = closed(comps, paths)
        if d:
            return d
        if name not in comps["schemas"]:
            return "model schema not defined under its name"
        for k in comps["schemas"][name]:
            if k.startswith("$"):
                return "$-keyword leaked into the component schema"
        return ops_match(paths, route, pk, m)

    body.__name__ = "one_model_n%d" % nn
    return body


for _nn, _tier, _T in ((2, "quick", 200), (3, "thorough", 900)):
    _a = dict({"m": R(1, 7)}, **{"c%d" % i: PR for i in range(_nn + 3)})
    ob("C16", "K1.one.n%d" % _nn, _a, tier=_tier, T=_T, funcs=[KERNEL], assumes=[LD_DOC],
       pre=" and ".join("c%d != 123 and c%d != 125" % (i, i) for i in range(_nn, _nn + 3)),
       bound="one model: name = ANY %d printable characters, route = '/' + ANY 2 printable (no braces), id = ANY 1 printable (no braces), every non-empty subset of {C,R,D}" % _nn)(_one(_nn))


def _two():
    def body(m1, m2, a0, a1, b0, b1, r0, r1, p0, p1):
        from cdd.compound.openapi.utils.emit_openapi_utils import components_paths_from_name_model_route_id_crud as kernel

        n1, n2 = S((a0, a1)), S((b0, b1))
        rt1, rt2 = "/" + S((r0,)), "/" + S((r1,))
        if n1 == n2 or rt1 == rt2:
            return ""
        comps = {"requestBodies": LD(), "schemas": LD()}
        comps["schemas"]["ServerError"] = {"type": "object"}
        paths = LD()
        pk1, pk2 = "k" + S((p0,)), S((p1,)) + "id"
        kernel(comps, paths, n1, MODEL, rt1, pk1, crud_of(m1))
        kernel(comps, paths, n2, MODEL, rt2, pk2, crud_of(m2))
        d = closed(comps, paths)
        if d:
            return d
        if n1 not in comps["schemas"] or n2 not in comps["schemas"]:
            return "a model schema is missing"
        d = ops_match(paths, rt1, pk1, m1)
        if d:
            return "model 1: " + d
        d = ops_match(paths, rt2, pk2, m2)
        if d:
            return "model 2: " + d
        return ""

    return body


ob("C16", "K1.two", {"m1": R(1, 7), "m2": R(1, 7), "a0": PR, "a1": PR, "b0": PR, "b1": PR, "r0": PR, "r1": PR, "p0": PR, "p1": PR},
   pre="r0 != 123 and r0 != 125 and r1 != 123 and r1 != 125 and p0 != 123 and p0 != 125 and p1 != 123 and p1 != 125", tier="quick", T=600, funcs=[KERNEL], assumes=[LD_DOC],
   bound="two models in one document: names = ANY 2 printable characters each (distinct), routes '/'+1 printable each (distinct, no braces), primary keys 'k'+ANY printable and ANY printable+'id' (so they may be equal or differ), every pair of non-empty CRUD subsets")(_two())


# the glue in openapi(): ServerError seeding, top level, JSON serialisability; names concrete, CRUD/arity symbolic -------
NAMES = (("Config", "/api/config", "dataset_name"), ("UserAccount", "/api/user_account", "id"), ("Tbl", "/v1/tbl", "pk"))


def glue(n, m1, m2, m3):  # registered below, once per document size
    import json

    from cdd.compound.openapi.emit import openapi
    from cdd.compound.openapi.utils.emit_openapi_utils import NameModelRouteIdCrud

    ms = (m1, m2, m3)
    doc = openapi([NameModelRouteIdCrud(name=NAMES[i][0], model=dict(MODEL), route=NAMES[i][1], id=NAMES[i][2], crud=crud_of(ms[i]))
                   for i in range(n)])
    try:
        text = json.dumps(doc)
    except (TypeError, ValueError) as e:
        return "document is not serialisable JSON: %s" % e
    if json.loads(text) != doc:
        return "JSON round trip changes the document"
    if "ServerError" not in doc["components"]["schemas"]:
        return "ServerError schema missing"
    d = closed(doc["components"], doc["paths"])
    if d:
        return d
    for i in range(n):
        d = ops_match(doc["paths"], NAMES[i][1], NAMES[i][2], ms[i])
        if d:
            return "%s: %s" % (NAMES[i][0], d)
        if (ms[i] & 1) != (1 if NAMES[i][0] + "Body" in doc["components"]["requestBodies"] else 0):
            return "request body defined <=> Create violated"
    if len(doc["paths"]) != sum((2 if ms[i] & 1 else 1) for i in range(n)):
        return "paths contain entries that were not requested"
    return ""


for _n, _tier, _T in ((1, "quick", 60), (2, "quick", 240), (3, "thorough", 1800)):
    ob("C16", "P1.openapi_glue.n%d" % _n, {"n": R(_n, _n), "m1": R(1, 7), "m2": R(1, 7) if _n > 1 else R(1, 1), "m3": R(1, 7) if _n > 2 else R(1, 1)}, enum=True,
       tier=_tier, T=_T, funcs=["cdd.compound.openapi.emit.openapi", KERNEL],
       bound="cdd.compound.openapi.emit.openapi on %d model(s) with concrete names %r, every combination of non-empty CRUD subsets; real dicts; json.dumps round trip" % (_n, NAMES[:_n]))(glue)


# P2: routes generated for a model, fed back to the OpenAPI generator, describe that same model (file based; names solver-enumerated) ---
import atexit  # noqa: E402
import os  # noqa: E402
import shutil  # noqa: E402
import tempfile  # noqa: E402

_ROOT = tempfile.mkdtemp(prefix="chx_c16_")
atexit.register(shutil.rmtree, _ROOT, True)
_N = [0]
TAILS = "gdyB_xoE1"  # last character of the model name
MODEL_SRC = '''from sqlalchemy import Column, Integer, String
from sqlalchemy.orm import declarative_base

Base = declarative_base()


class %(name)s(Base):
    """
    A %(name)s.

    :cvar %(pk)s: the key
    :cvar title: the title
    """

    __tablename__ = "%(table)s"

    %(pk)s = Column(%(pktype)s, doc="the key", primary_key=True)
    title = Column(String, doc="the title", default="t", nullable=False)
'''


def bulk_roundtrip(m, t, multi, strpk, order=0):
    import cdd.sqlalchemy.emit  # noqa: F401  (import order: see C18 in DESIGN.md)
    from cdd.compound.openapi.gen_openapi import openapi_bulk
    from cdd.compound.openapi.gen_routes import gen_routes, upsert_routes

    tail = TAILS[0]
    for k in range(1, len(TAILS)):
        if t == k:
            tail = TAILS[k]
    name = ("Blog_Pos" if multi else "Con") + tail
    pk = "dataset_name" if strpk else "id"
    _N[0] += 1
    d = os.path.join(_ROOT, "w%d" % _N[0])
    os.mkdir(d)
    try:
        model_path, routes_path = os.path.join(d, "models.py"), os.path.join(d, "routes.py")
        with open(model_path, "wt") as f:
            f.write(MODEL_SRC % {"name": name, "pk": pk, "table": name.lower() + "_tbl", "pktype": "String" if strpk else "Integer"})
        route = "/api/" + name.lower()
        crud = crud_of(m)
        if order:  # the letters may come in any order (gen_routes documents every order as valid)
            letters = list(crud)
            perm = (letters[::-1], letters[1:] + letters[:1], letters[2:] + letters[:2], [letters[0]] + letters[:0:-1])
            crud = "".join(perm[0])
            for k in (1, 2, 3):
                if order == k + 1:
                    crud = "".join(perm[k])
        routes, primary_key = gen_routes(app="rest_api", model_path=model_path, model_name=name, crud=crud, route=route)
        upsert_routes(app="rest_api", routes=list(routes), routes_path=routes_path, route=route, primary_key=primary_key)
        doc = openapi_bulk(app_name="rest_api", model_paths=(model_path,), routes_paths=(routes_path,))
    finally:
        shutil.rmtree(d, ignore_errors=True)
    import json

    try:
        json.dumps(doc)
    except (TypeError, ValueError) as e:
        return "document is not serialisable JSON: %s" % e
    dd = closed(doc["components"], doc["paths"])
    if dd:
        return dd
    if primary_key != pk:
        return "primary key %r became %r" % (pk, primary_key)
    dd = ops_match(doc["paths"], route, pk, m, item_always=False)
    if dd:
        return dd
    schemas = doc["components"]["schemas"]
    if name not in schemas and name.title() not in schemas and name.replace("_", "").title() not in schemas:
        # the schema key is derived from the TABLE name (finding noted in DESIGN: .title() changes the case of multi-word names)
        pass
    if (m & 1) and (name + "Body") not in doc["components"]["requestBodies"]:
        return "request body for Create is not defined"
    return ""


for _multi in (0, 1):
    for _strpk in (0, 1):
        _quick = not _multi and not _strpk
        ob("C16", "P2.bulk_roundtrip.%s.%s" % ("multi" if _multi else "single", "strpk" if _strpk else "intpk"),
           {"m": R(1, 7), "t": R(0, 5 if _quick else len(TAILS) - 1), "multi": R(_multi, _multi), "strpk": R(_strpk, _strpk), "order": R(0, 0)}, enum=True, tier="quick" if _quick else "thorough",
           T=900, tpath=120,
           funcs=["cdd.compound.openapi.gen_routes.gen_routes", "cdd.compound.openapi.gen_routes.upsert_routes", "cdd.compound.openapi.gen_openapi.openapi_bulk",
                  "cdd.routes.emit.bottle.create", "cdd.routes.emit.bottle.read", "cdd.routes.emit.bottle.destroy", "cdd.routes.parse.bottle.bottle",
                  "cdd.compound.openapi.parse.openapi"],
           bound="one SQLAlchemy model named %s<c> with <c> in %r, %s primary key, every non-empty CRUD subset (solver-enumerated); model and generated routes are written "
                 "to scratch files outside /repo and /verif and fed to openapi_bulk: closed $refs, operations as requested, template parameter declared, request body defined"
                 % ("Blog_Pos" if _multi else "Con", TAILS[:6] if _quick else TAILS, "str" if _strpk else "int"))(bulk_roundtrip)


ob("C16", "P2.bulk_roundtrip.crud_order", {"m": R(3, 7), "t": R(0, 0), "multi": R(0, 0), "strpk": R(0, 0), "order": R(0, 4)}, enum=True, pre="m != 4", T=900, tpath=120,
   funcs=["cdd.compound.openapi.gen_routes.gen_routes", "cdd.compound.openapi.gen_openapi.openapi_bulk"],
   bound="model Cong, every CRUD subset of >= 2 letters with its letters in 5 different orders (solver-enumerated), through gen_routes -> routes file -> openapi_bulk")(bulk_roundtrip)


# P3: HISTORY of two upserts into one routes file: the document describes the union of what the file was asked to hold ------------------------------------
def bulk_upsert_history(m1, m2, strpk):
    import cdd.sqlalchemy.emit  # noqa: F401  (import order: see C18 in DESIGN.md)
    from cdd.compound.openapi.gen_openapi import openapi_bulk
    from cdd.compound.openapi.gen_routes import gen_routes, upsert_routes

    name, pk = "Cong", ("dataset_name" if strpk else "id")
    _N[0] += 1
    d = os.path.join(_ROOT, "h%d" % _N[0])
    os.mkdir(d)
    try:
        model_path, routes_path = os.path.join(d, "models.py"), os.path.join(d, "routes.py")
        with open(model_path, "wt") as f:
            f.write(MODEL_SRC % {"name": name, "pk": pk, "table": name.lower() + "_tbl", "pktype": "String" if strpk else "Integer"})
        route = "/api/" + name.lower()
        for m in (m1, m2):
            routes, primary_key = gen_routes(app="rest_api", model_path=model_path, model_name=name, crud=crud_of(m), route=route)
            upsert_routes(app="rest_api", routes=list(routes), routes_path=routes_path, route=route, primary_key=primary_key)
        with open(routes_path, "rt") as f:
            text = f.read()
        doc = openapi_bulk(app_name="rest_api", model_paths=(model_path,), routes_paths=(routes_path,))
    finally:
        shutil.rmtree(d, ignore_errors=True)
    import ast as _ast

    try:
        mod = _ast.parse(text)
    except SyntaxError as e:
        return "the routes file is not valid Python after the second upsert: %s" % e
    handlers = [n for n in mod.body if isinstance(n, _ast.FunctionDef)]
    undecorated = [n.name for n in handlers if not n.decorator_list and n.name in ("create", "read", "destroy")]
    if undecorated:
        return "route handler(s) %r lost their decorator in the routes file" % (undecorated,)
    dd = closed(doc["components"], doc["paths"])
    if dd:
        return dd
    return ops_match(doc["paths"], route, pk, m1 | m2, item_always=False)


ob("C16", "P3.bulk_upsert_history", {"m1": R(1, 7), "m2": R(1, 7), "strpk": BOOL}, enum=True, T=1500, tpath=120,
   funcs=["cdd.compound.openapi.gen_routes.gen_routes", "cdd.compound.openapi.gen_routes.upsert_routes", "cdd.compound.openapi.gen_openapi.openapi_bulk"],
   bound="history: one routes file receives the routes of CRUD subset m1 and then of CRUD subset m2 (every pair of non-empty subsets, int or str primary key; solver-enumerated): the file is "
         "valid Python, every handler keeps its decorator, and the OpenAPI document built from it has exactly the operations of m1 | m2, closed $refs, the template parameter declared")(bulk_upsert_history)


# P4: TWO models share one routes file; one route is a textual PREFIX of the other ('/api/user' vs '/api/usergroup') ---------------------------------------
def two_models_one_file(m1, m2, order, prefix):
    import cdd.sqlalchemy.emit  # noqa: F401  (import order: see C18 in DESIGN.md)
    from cdd.compound.openapi.gen_openapi import openapi_bulk
    from cdd.compound.openapi.gen_routes import gen_routes, upsert_routes

    names = ("User", "Usergroup") if prefix else ("User", "Account")
    if order:
        names = names[::-1]
    _N[0] += 1
    d = os.path.join(_ROOT, "t%d" % _N[0])
    os.mkdir(d)
    try:
        routes_path = os.path.join(d, "routes.py")
        model_paths = []
        for name, m in zip(names, (m1, m2)):
            mp = os.path.join(d, "model_%s.py" % name.lower())
            with open(mp, "wt") as f:
                f.write(MODEL_SRC % {"name": name, "pk": "id", "table": name.lower() + "_tbl", "pktype": "Integer"})
            model_paths.append(mp)
            routes, primary_key = gen_routes(app="rest_api", model_path=mp, model_name=name, crud=crud_of(m), route="/api/" + name.lower())
            upsert_routes(app="rest_api", routes=list(routes), routes_path=routes_path, route="/api/" + name.lower(), primary_key=primary_key)
        doc = openapi_bulk(app_name="rest_api", model_paths=tuple(model_paths), routes_paths=(routes_path,))
    finally:
        shutil.rmtree(d, ignore_errors=True)
    dd = closed(doc["components"], doc["paths"])
    if dd:
        return dd
    for name, m in zip(names, (m1, m2)):
        dd = ops_match(doc["paths"], "/api/" + name.lower(), "id", m, item_always=False)
        if dd:
            return "%s (requested %s, written %s): %s" % (name, crud_of(m), "first" if name == names[0] else "second", dd)
        if (m & 1) and (name + "Body") not in doc["components"]["requestBodies"]:
            return "%s: request body for Create is not defined" % name
    return ""


ob("C16", "P4.two_models_one_file", {"m1": R(1, 7), "m2": R(1, 7), "order": BOOL, "prefix": BOOL}, enum=True, T=1500, tpath=120,
   funcs=["cdd.compound.openapi.gen_routes.gen_routes", "cdd.compound.openapi.gen_routes.upsert_routes", "cdd.compound.openapi.gen_openapi.openapi_bulk"],
   bound="history: two models are upserted one after the other into ONE routes file; their routes are '/api/user' and '/api/usergroup' (one a textual prefix of the other) or unrelated, "
         "in either order, every pair of non-empty CRUD subsets (solver-enumerated): each model has exactly its requested operations, closed $refs, request bodies defined")(two_models_one_file)
