"""emit -> parse hops on AST objects for the four code formats + the ReST docstring (shared by C02, C03, C08).

"AST level": the emitter's ast object is handed straight to the matching parser; rendering it to text and re-reading it is
CPython's ast.unparse / parser (a C boundary where nothing stays symbolic) and is an assumption, validated on replays:
in replay mode every hop additionally goes through to_code + ast.parse, so a counterexample is confirmed through real text.
"""
import ast
from copy import deepcopy

from chx.shim import REPLAYING, shim
from harness.shims import ADHOC_SHIMS

FORMATS = ("class", "pydantic", "function", "argparse", "docstring")


def _through_text(node):
    if REPLAYING():
        import cdd.shared.source_transformer as st

        return ast.parse(st.to_code(node)).body[0]
    return node


def hop(fmt, ir, style="rest", emit_default_doc=False, type_annotations=True, kwonly=False, keep_prose=False, word_wrap=False):
    """one emit -> (text in replay) -> parse hop; exceptions propagate"""
    import cdd.docstring.utils.parse_utils as pu

    ir = deepcopy(ir)
    with shim(pu, **ADHOC_SHIMS):
        if fmt == "class":
            import cdd.class_.emit
            import cdd.class_.parse

            node = cdd.class_.emit.class_(ir, class_name="C", word_wrap=word_wrap, docstring_format=style, emit_default_doc=emit_default_doc)
            return cdd.class_.parse.class_(_through_text(node))
        if fmt == "pydantic":
            import cdd.pydantic.emit
            import cdd.pydantic.parse

            node = cdd.pydantic.emit.pydantic(ir, class_name="C", word_wrap=word_wrap, docstring_format=style, emit_default_doc=emit_default_doc)
            return cdd.pydantic.parse.pydantic(_through_text(node))
        if fmt == "function":
            import cdd.function.emit
            import cdd.function.parse

            node = cdd.function.emit.function(ir, function_name="f", function_type="static", word_wrap=word_wrap, docstring_format=style,
                                              emit_default_doc=emit_default_doc, type_annotations=type_annotations, emit_as_kwonlyargs=kwonly)
            return cdd.function.parse.function(_through_text(node))
        if fmt == "argparse":
            import cdd.argparse_function.emit
            import cdd.argparse_function.parse

            node = cdd.argparse_function.emit.argparse_function(ir, function_name="set_cli_args", word_wrap=word_wrap, docstring_format=style,
                                                                emit_default_doc=emit_default_doc)
            return cdd.argparse_function.parse.argparse_ast(_through_text(node))
        if fmt == "docstring":
            import cdd.docstring.emit
            import cdd.docstring.parse

            text = cdd.docstring.emit.docstring(ir, docstring_format=style, word_wrap=word_wrap, emit_default_doc=True, emit_types=True)
            return cdd.docstring.parse.docstring(text, emit_default_doc=not not keep_prose)  # keep_prose: the parser's own default (the 'Defaults to' prose stays in the description)
        if fmt == "docstring_notypes":  # the docstring emitter's default: types are NOT written; the parser infers them from the defaults
            import cdd.docstring.emit
            import cdd.docstring.parse

            text = cdd.docstring.emit.docstring(ir, docstring_format=style, word_wrap=False, emit_default_doc=True, emit_types=False)
            return cdd.docstring.parse.docstring(text, emit_default_doc=not not keep_prose)
        if fmt == "json_schema":
            import cdd.json_schema.emit
            import cdd.json_schema.parse

            schema = cdd.json_schema.emit.json_schema(ir)
            if REPLAYING():
                import json

                schema = json.loads(json.dumps(schema))
            return cdd.json_schema.parse.json_schema(schema)
    raise ValueError(fmt)


FORMAT_FUNCS = {
    "class": ["cdd.class_.emit.class_", "cdd.class_.parse.class_", "cdd.shared.ast_utils.param2ast", "cdd.shared.ast_utils._generic_param2ast"],
    "pydantic": ["cdd.pydantic.emit.pydantic", "cdd.pydantic.parse.pydantic", "cdd.shared.ast_utils.param2ast"],
    "function": ["cdd.function.emit.function", "cdd.function.parse.function", "cdd.shared.ast_utils.func_arg2param",
                 "cdd.shared.parse.utils.parser_utils.ir_merge", "cdd.function.utils.parse_utils._interpolate_return"],
    "argparse": ["cdd.argparse_function.emit.argparse_function", "cdd.argparse_function.parse.argparse_ast",
                 "cdd.shared.ast_utils.param2argparse_param", "cdd.argparse_function.utils.emit_utils.parse_out_param"],
    "docstring": ["cdd.docstring.emit.docstring", "cdd.docstring.parse.docstring"],
    "docstring_notypes": ["cdd.docstring.emit.docstring", "cdd.docstring.parse.docstring", "cdd.shared.docstring_parsers._infer_default"],
    "json_schema": ["cdd.json_schema.emit.json_schema", "cdd.json_schema.parse.json_schema", "cdd.json_schema.utils.emit_utils.param2json_schema_property",
                    "cdd.json_schema.utils.parse_utils.json_schema_property_to_param"],
}
