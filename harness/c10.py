"""C10 - output is a deterministic function of the input alone (DESIGN.md section 6, C10).

Set/frozenset iteration order is made a solver variable: the anchored modules are recompiled from the current
source with every iteration source / call argument wrapped in `__nd__` (chx/instrument.py), which returns the
elements of a set in the permutation selected by the next symbolic index.  Obligation: the result under ANY
permutation equals the result under the canonical order.  `sorted(<set>)` is order-free and is never flagged.
A counterexample is replayed by running the UNMODIFIED function in fresh interpreters under PYTHONHASHSEED=0..47;
only two different outputs make a VIOLATION.
"""
import ast
import json
import os
import subprocess
import sys
from collections import OrderedDict
from copy import deepcopy

from chx.instrument import ND, instrument_nd
from chx.ob import BOOL, CP, PR, R, U, ob

import cdd.shared.ast_utils as _au  # noqa: E402
import cdd.shared.parse.utils.parser_utils as _ppu  # noqa: E402

SWAPPED = [] if os.environ.get("CHX_NO_INSTRUMENT") == "1" else instrument_nd(_ppu) + instrument_nd(_au)
EXPLANATION = "C10: functions recompiled with solver-ordered set iteration: %d (e.g. %s)." % (len(SWAPPED), ", ".join(SWAPPED[:6]))
NAMES = ("alpha", "b", "gamma_3", "dd")
ND_ASSUME = ("any permutation of a <=4-element set of strings is produced by some hash seed (assumption linking the solver-chosen "
             "order to PYTHONHASHSEED; counterexamples are confirmed by re-running the unmodified code under 48 seeds)")


def hashseed_outputs(snippet, seeds=range(48)):
    outs = {}
    for sd in seeds:
        p = subprocess.run([sys.executable, "-c", "import cdd.class_.parse\n" + snippet], capture_output=True, text=True,
                           env=dict(os.environ, PYTHONHASHSEED=str(sd), PYTHONPATH=os.environ.get("PYTHONPATH") or "/verif", CHX_NO_INSTRUMENT="1"), timeout=120)
        outs.setdefault(p.stdout + ("" if p.returncode == 0 else "\nrc=%d %s" % (p.returncode, p.stderr[-300:])), []).append(sd)
    return outs


def hashseed_diag(snippet):
    outs = hashseed_outputs(snippet)
    if len(outs) > 1:
        items = sorted(outs.items(), key=lambda kv: kv[1][0])
        return "output depends on PYTHONHASHSEED: %d different outputs, e.g. seed %d -> %s ; seed %d -> %s" % (
            len(outs), items[0][1][0], items[0][0].strip()[:200], items[1][1][0], items[1][0].strip()[:200])
    return ""


# ------------------------------------------------------------------------------------------- merge_params / ir_merge
def _params(mask, with_doc):
    d = OrderedDict()
    for i, n in enumerate(NAMES):
        if mask & (1 << i):
            d[n] = {"doc": "doc of " + n} if with_doc else {"typ": "int"}
    return d


def _ir(mask, with_doc):
    return {"name": "f", "doc": "", "params": _params(mask, with_doc), "returns": None}


def _norm(ir):
    return [(k, sorted(v.items(), key=repr)) for k, v in ir["params"].items()], ir.get("returns")


def nd_ir_merge(documented, k0, k1):
    if documented == 0:
        return ""
    ND.reset((k0, k1))
    a = _ppu.ir_merge(_ir(documented, True), _ir(15, False))
    ND.reset((), canonical=True)
    b = _ppu.ir_merge(_ir(documented, True), _ir(15, False))
    if _norm(a) != _norm(b):
        return "ir_merge result depends on set iteration order: %r vs %r" % (list(a["params"]), list(b["params"]))
    if sorted(a["params"]) != sorted(NAMES):
        return "a declared parameter is missing after the merge"
    return ""


def nd_ir_merge_replay(documented, k0, k1):
    return hashseed_diag(
        "from harness.c10 import _ir, _ppu\nprint(list(_ppu.ir_merge(_ir(%d, True), _ir(15, False))['params']))" % documented)


ob("C10", "nd.ir_merge", {"documented": R(0, 15), "k0": R(0, 23), "k1": R(0, 23)}, T=200, replay=nd_ir_merge_replay,
   funcs=["cdd.shared.parse.utils.parser_utils.ir_merge", "cdd.shared.parse.utils.parser_utils.merge_params",
          "cdd.shared.parse.utils.parser_utils.merge_present_params", "cdd.shared.parse.utils.parser_utils._join_non_none"],
   assumes=[ND_ASSUME],
   bound="function with 4 declared parameters whose docstring documents ANY subset (16 masks); first two set iterations in ANY of their permutations")(nd_ir_merge)


def nd_join(mask_a, mask_b, k0):
    keys = ("typ", "doc", "default")
    pa = {k: "A" + k for i, k in enumerate(keys) if mask_a & (1 << i)}
    pb = {k: "B" + k for i, k in enumerate(keys) if mask_b & (1 << i)}
    ND.reset((k0,))
    a = _ppu._join_non_none(dict(pa), dict(pb))
    ND.reset((), canonical=True)
    b = _ppu._join_non_none(dict(pa), dict(pb))
    if a != b:
        return "_join_non_none result depends on set iteration order"
    return ""


ob("C10", "nd.join_non_none", {"mask_a": R(0, 7), "mask_b": R(0, 7), "k0": R(0, 5)}, T=120,
   funcs=["cdd.shared.parse.utils.parser_utils._join_non_none"], assumes=[ND_ASSUME],
   bound="two return entries with ANY subsets of {typ, doc, default}; ANY permutation of the key set")(nd_join)


# ------------------------------------------------------------------------------------------- import inference
TYPES = ("Optional[int]", "List[str]", "Literal['a', 'b']", "Union[int, str]", "Dict[str, int]", "Final[int]")


def _module(mask):
    args = ", ".join("a%d: %s" % (i, t) for i, t in enumerate(TYPES) if (mask & (1 << i)) or i == 5)
    # `final` and `Final` differ only by case (ties under a case-insensitive sort key)
    return ast.parse("@final\ndef f(%s):\n    pass\n\n__all__ = ['f', 'g']\n__all__ = ['b', 'f']\n" % args)


def _dump(x):
    """concrete ASTs only: dumped outside the tracer (ast.dump is pure Python and very slow when traced)"""
    try:
        from crosshair.tracers import NoTracing
    except ImportError:  # pragma: no cover
        return _dump0(x)
    with NoTracing():
        return _dump0(x)


def _dump0(x):
    if x is None:
        return "None"
    if isinstance(x, (list, tuple)):
        return "[" + ", ".join(_dump0(e) for e in x) + "]"
    return ast.dump(x)


def nd_imports(mask, k0, k1, k2):
    ND.reset((k0, k1, k2))
    m1 = _module(mask)
    a = _au.infer_imports(m1)
    a2 = _au.optimise_imports(list(a or ()) + list(a or ()))
    _au.merge_assignment_lists(m1, "__all__")
    ND.reset((), canonical=True)
    m2 = _module(mask)
    b = _au.infer_imports(m2)
    b2 = _au.optimise_imports(list(b or ()) + list(b or ()))
    _au.merge_assignment_lists(m2, "__all__")
    if _dump(a) != _dump(b):
        return "infer_imports depends on set iteration order"
    if _dump(a2) != _dump(b2):
        return "optimise_imports depends on set iteration order"
    if _dump(m1) != _dump(m2):
        return "merge_assignment_lists depends on set iteration order"
    return ""


def nd_imports_replay(mask, k0, k1, k2):
    return hashseed_diag(
        "from harness.c10 import _module, _au, _dump\nm=_module(%d)\na=_au.infer_imports(m)\nprint(_dump(a)); print(_dump(_au.optimise_imports(list(a or ())+list(a or ()))))\n"
        "_au.merge_assignment_lists(m,'__all__'); print(_dump(m))" % mask)


ob("C10", "nd.imports", {"mask": R(0, 7), "k0": R(0, 5), "k1": R(0, 5), "k2": R(0, 1)}, T=300, replay=nd_imports_replay,
   funcs=["cdd.shared.ast_utils.infer_imports", "cdd.shared.ast_utils.optimise_imports", "cdd.shared.ast_utils.merge_assignment_lists",
          "cdd.shared.ast_utils.get_types", "cdd.shared.ast_utils.symbol_to_import"], assumes=[ND_ASSUME],
   bound="module with one function whose parameters use Final[int] plus ANY subset of the first three annotations of %r, decorated @final, and two __all__ assignments; first set iterations permuted by the solver (6 x 6 x 2 choices)" % (TYPES,))(nd_imports)


PERMS = ((0, 1, 2, 3), (1, 0, 2, 3), (2, 0, 1, 3), (3, 2, 1, 0), (0, 2, 1, 3), (1, 3, 0, 2))
IMPORT_LINES = ["from typing import Optional, List", "from typing import List, Dict", "from os import path", "from typing import Optional as O"]


def _nd_dedup(order):
    text = "\n".join(IMPORT_LINES[i] for i in PERMS[order]) + "\nx = 1\n"

    def body(k0):
        ND.reset((k0,))
        a = _au.deduplicate_sorted_imports(ast.parse(text))
        ND.reset((), canonical=True)
        b = _au.deduplicate_sorted_imports(ast.parse(text))
        if _dump(a) != _dump(b):
            return "deduplicate_sorted_imports depends on set iteration order"
        return ""

    return body


for _o in range(len(PERMS)):
    ob("C10", "nd.dedup_imports.o%d" % _o, {"k0": R(0, 23)}, T=120, tier="quick" if _o < 2 else "thorough",
       funcs=["cdd.shared.ast_utils.deduplicate_sorted_imports"], assumes=[ND_ASSUME],
       bound="four import statements in source order %r; ANY permutation of the first set iteration" % (PERMS[_o],))(_nd_dedup(_o))


# ------------------------------------------------------------------------------------------- call history
def _S(cs):
    s = ""
    for c in cs:
        s = s + chr(c)
    return s


def hist_parse(x0, style):
    """an unrelated earlier call must not change the result of a later one"""
    from cdd.shared.docstring_parsers import parse_docstring

    x = ":param a: " + _S((x0,))
    y = (":param b: number of things. Defaults to 5", "Args:\n  b: whether to. Defaults to True", "Parameters\n----------\nb : int\n    desc\n",
         "Head.\n\nArgs:\n  b (int): the b\n\n  Usage:\n    f(1)\n\nReturns:\n  int:\n   res\n\nTrailing prose.\n",
         "Head.\n\nParameters\n----------\nb : int\n    the b\n\nReturns\n-------\nint\n    res\n\nTrailing prose.\n",
         "\n    Frobnicate the input.\n\n    Args:\n        x (int): the x value\n        y (str): the y value. Defaults to \"a\"\n\n        Usage:\n            call it with care\n\n    Returns:\n        bool: whether it worked\n    ",
         "\n    Frobnicate.\n\n    Args:\n        x (int): the x value\n\n    Example:\n        >>> f(1)\n\n    Returns:\n        bool: ok\n    ")[style]

    def run(s):
        try:
            return parse_docstring(s)
        except Exception as e:
            return "raised " + type(e).__name__

    fresh = run(y)
    run(x)
    after = run(y)
    again = run(y)
    if fresh != after or after != again:
        return "parse_docstring result depends on preceding calls"
    return ""


ob("C10", "hist.parse_docstring", {"x0": CP, "style": R(0, 6)}, T=600,
   funcs=["cdd.shared.docstring_parsers.parse_docstring"],
   bound="ReST docstring with ANY code point as description, then one of seven concrete docstrings (ReST/Google/NumPy; two with a nested Usage block / trailing prose after the sections): result of the second is the same before/after/again")(hist_parse)


# ------------------------------------------------------------------------------------------- gen: module assembly
import cdd.compound.gen_utils as _gu  # noqa: E402

if os.environ.get("CHX_NO_INSTRUMENT") != "1":
    SWAPPED += instrument_nd(_gu)
GEN_SRC = ("class %s(object):\n    '''\n    Doc.\n\n    :cvar a: an a\n    :cvar b: a b\n    '''\n    a: Optional[int] = 5\n    b: %s = None\n")
GEN_TYPES = ("Optional[List[str]]", "Union[int, str]", "Dict[str, int]")


def _gen(mask, infer):
    import contextlib
    import io

    entries = [("E%d" % i, ast.parse(GEN_SRC % ("E%d" % i, t)).body[0]) for i, t in enumerate(GEN_TYPES) if mask & (1 << i)]
    with contextlib.redirect_stdout(io.StringIO()):
        return _gu.gen_module(decorator_list=[], emit_and_infer_imports=infer, emit_call=False, emit_default_doc=False, emit_name="class_",
                              functions_and_classes=None, imports="", input_mapping_it=iter(entries), name_tpl="{name}Cfg", no_word_wrap=True,
                              parse_name="class", prepend=None)


def nd_gen_module(mask, infer, k0, k1):
    ND.reset((k0, k1))
    try:
        a = _gen(mask, infer)
    except Exception as e:
        a = "raised %s" % type(e).__name__
    ND.reset((), canonical=True)
    try:
        b = _gen(mask, infer)
    except Exception as e:
        b = "raised %s" % type(e).__name__
    if (a if isinstance(a, str) else _dump(a)) != (b if isinstance(b, str) else _dump(b)):
        return "gen_module output (imports / symbols / __all__) depends on set iteration order"
    return ""


def nd_gen_module_replay(mask, infer, k0, k1):
    return hashseed_diag("from harness.c10 import _gen, _dump\nm=_gen(%d, %r)\nprint(_dump(m))" % (mask, bool(infer)))


ob("C10", "nd.gen_module", {"mask": R(1, 7), "infer": BOOL, "k0": R(0, 5), "k1": R(0, 5)}, T=600, tpath=120, replay=nd_gen_module_replay,
   funcs=["cdd.compound.gen_utils.gen_module", "cdd.compound.gen_utils.get_functions_and_classes", "cdd.shared.ast_utils.infer_imports", "cdd.shared.ast_utils.optimise_imports"],
   assumes=[ND_ASSUME],
   bound="gen_module on ANY non-empty subset of three class entries using typing names, import inference on/off; first two set iterations permuted by the solver")(nd_gen_module)


# ------------------------------------------------------------------------------- call history: whole conversions
#: parameter types for the EARLIER and the LATER conversion (solver-enumerated): known scalars, an unknown name on its own,
#: and the same unknown name nested in Optional / Union (both positions) / List, plus Literal and dict
HIST_TYPES = ("int", "str", "User", "Optional[User]", "Union[int, User]", "List[User]", "Union[User, int]", "Literal['a', 'b']", "dict")
HIST_FORMATS = ("class", "pydantic", "function", "argparse", "docstring", "json_schema", "sqlalchemy", "sqlalchemy_table", "sqlalchemy_hybrid")


def _pick(seq, k):
    v = seq[0]
    for j in range(1, len(seq)):
        if k == j:
            v = seq[j]
    return v


def _hist_ir(t, dflt):
    from collections import OrderedDict

    p = {"typ": t, "doc": "the owner"}
    if dflt:
        p["default"] = 0
    return {"name": "C", "doc": "Header line.", "type": "static",
            "params": OrderedDict((("id", {"typ": "int", "doc": "[PK] the id"}), ("owner", p))), "returns": None}


def _hist_convert(fmt, ir):
    """one whole emit (+ parse back) of `ir` in `fmt`, as a comparable string"""
    from harness.formats import hop

    try:
        if fmt.startswith("sqlalchemy"):
            from harness.c05 import emit_parse

            node, back = emit_parse({"sqlalchemy": "class", "sqlalchemy_table": "table", "sqlalchemy_hybrid": "hybrid"}[fmt], ir)
            return ast.dump(node) + " / " + _ir_str(back)
        return _ir_str(hop(fmt, ir))
    except Exception as e:
        return "raised %s" % type(e).__name__


def _ir_str(ir):
    out = []
    for k, v in (ir.get("params") or {}).items():
        out.append("%s:%s=%r|%s" % (k, v.get("typ"), v.get("default", "<absent>"), v.get("doc")))
    r = (ir.get("returns") or {}).get("return_type")
    return ";".join(out) + ("->%s" % (r.get("typ"),) if r else "") + "#" + str(ir.get("doc"))


_BASE = {}


def _containers():
    import functools
    import sys

    seen = set()
    for name, mod in sorted(sys.modules.items()):
        if (name == "cdd" or name.startswith("cdd.")) and ".tests" not in name:
            for k, v in list(vars(mod).items()):
                if not k.startswith("__") and isinstance(v, (dict, list, set, functools._lru_cache_wrapper)) and id(v) not in seen:
                    seen.add(id(v))
                    yield name + "." + k, v


def _fresh_state():
    """put every module-level table of the loaded cdd modules back to its import-time content and empty every lru cache:
    the state a fresh interpreter would have (CrossHair re-executes the body once per path in ONE process)"""
    import functools
    from copy import deepcopy

    import cdd.compound.openapi.utils.emit_utils  # noqa: F401  (patches typ2column_type on import: part of the import-time state)
    import cdd.docstring.parse  # noqa: F401
    import cdd.json_schema.parse  # noqa: F401
    import cdd.pydantic.parse  # noqa: F401
    import cdd.sqlalchemy.parse  # noqa: F401

    changed = []
    for key, v in _containers():
        if isinstance(v, functools._lru_cache_wrapper):
            v.cache_clear()
            continue
        if key not in _BASE:
            _BASE[key] = deepcopy(v)
            continue
        if v != _BASE[key]:
            changed.append(key)
            v.clear()
            (v.extend if isinstance(v, list) else v.update)(deepcopy(_BASE[key]))
    return changed


def _hist_conv(f2):
    def body(f1, t1, t2, d1, d2):
        """the result of converting (t2, d2) into f2 must not depend on an earlier conversion of (t1, d1) into f1"""
        from crosshair.tracers import NoTracing

        ty1, ty2, fm1 = _pick(HIST_TYPES, t1), _pick(HIST_TYPES, t2), _pick(HIST_FORMATS, f1)
        d1, d2 = bool(d1), bool(d2)
        with NoTracing():  # the arguments are concrete from here on: the conversions run at native speed on the real objects
            _fresh_state()
            later, earlier = _hist_ir(ty2, d2), _hist_ir(ty1, d1)
            fresh = _hist_convert(f2, later)
            _hist_convert(fm1, earlier)
            after = _hist_convert(f2, later)
            touched = _fresh_state()
        if fresh != after:
            return "%s conversion of type %s gives a different result after an earlier %s conversion of type %s (module state touched: %s)" % (
                f2, ty2, fm1, ty1, ", ".join(touched) or "none")
        return ""

    return body


def _hist_conv_replay(f2):
    def body(f1, t1, t2, d1, d2):
        """fresh interpreter for the reference run: nothing ran before it"""
        import subprocess
        import sys

        prog = ("import cdd.class_.parse\nfrom harness.c10 import _hist_convert, _hist_ir, HIST_TYPES, HIST_FORMATS\n"
                "%sprint(_hist_convert(%r, _hist_ir(HIST_TYPES[%d], %r)))")
        env = dict(os.environ, CHX_REPLAY="1", CHX_NO_INSTRUMENT="1")
        outs = []
        for pre in ("", "_hist_convert(HIST_FORMATS[%d], _hist_ir(HIST_TYPES[%d], %r))\n" % (f1, t1, bool(d1))):
            r = subprocess.run([sys.executable, "-c", prog % (pre, f2, t2, bool(d2))], capture_output=True, text=True, env=env, timeout=120)
            if r.returncode != 0:
                return "EXC replay subprocess failed: " + r.stderr[-400:]
            outs.append(r.stdout)
        if outs[0] != outs[1]:
            return "%s conversion of type %s: fresh process and process that first ran a %s conversion of type %s disagree" % (
                f2, HIST_TYPES[t2], HIST_FORMATS[f1], HIST_TYPES[t1])
        return ""

    return body


for _f2 in HIST_FORMATS:
    for _tier, _n in (("quick", len(HIST_TYPES) - 1),):
        ob("C10", "hist.convert.%s%s" % (_f2, "" if _tier == "quick" else ".all"),
           {"f1": R(0, len(HIST_FORMATS) - 1), "t1": R(0, _n), "t2": R(0, _n), "d1": BOOL, "d2": BOOL}, tier=_tier, T=900, tpath=60,
           replay=_hist_conv_replay(_f2),
           funcs=["cdd.sqlalchemy.emit.*", "cdd.sqlalchemy.utils.shared_utils.update_args_infer_typ_sqlalchemy", "cdd.sqlalchemy.utils.emit_utils.typ2column_type",
                  "cdd.class_.emit.class_", "cdd.function.emit.function", "cdd.argparse_function.emit.argparse_function", "cdd.pydantic.emit.pydantic",
                  "cdd.json_schema.emit.json_schema", "cdd.docstring.emit.docstring", "and the matching parsers"],
           assumes=["SOLVER-ENUMERATED: the five arguments are the only symbolic values; once a path has fixed them the three conversions run untraced on the real "
                    "objects (real module tables, real functools.lru_cache)",
                    "process state is reset at the start of every path: each module-level dict/list/set of the loaded cdd modules is put back to its import-time "
                    "content and every lru cache is cleared, so 'before' means 'as in a fresh interpreter'; state kept elsewhere (closures, class attributes) is not reset",
                    "replay: the reference conversion runs in a fresh interpreter"],
           bound="an EARLIER whole conversion (any of %d formats x parameter type among the first %d of %r x default present/absent) followed by a LATER conversion into %s "
                 "(same type set): the later result equals the result obtained before the earlier conversion ran" % (len(HIST_FORMATS), _n + 1, HIST_TYPES, _f2))(_hist_conv(_f2))


# ------------------------------------------------------------------------------- gen_routes: routes appended to an existing routes file
import cdd.sqlalchemy.emit  # noqa: E402,F401  (import order: see C18 in DESIGN.md)
import cdd.compound.openapi.gen_routes as _gr  # noqa: E402

if os.environ.get("CHX_NO_INSTRUMENT") != "1":
    SWAPPED += instrument_nd(_gr)
_UP_ROOT = [None]
_UP_N = [0]
UP_MODEL = ('from sqlalchemy import Column, Integer, String\nfrom sqlalchemy.orm import declarative_base\n\nBase = declarative_base()\n\n\nclass Conf(Base):\n    """\n    A Conf.\n\n'
            '    :cvar id: the key\n    :cvar title: the title\n    """\n\n    __tablename__ = "conf_tbl"\n\n    id = Column(Integer, doc="the key", primary_key=True)\n'
            '    title = Column(String, doc="the title", default="t", nullable=False)\n')


def _crud(m):
    return ("C" if m & 1 else "") + ("R" if m & 2 else "") + ("D" if m & 4 else "")


def _upsert(existing, wanted):
    """a routes file that already holds the `existing` routes receives the `wanted` ones; returns the resulting file text"""
    import atexit
    import shutil
    import tempfile

    import cdd.sqlalchemy.emit  # noqa: F401  (import order)

    if _UP_ROOT[0] is None:  # (pid in the name: under the engine `random` is patched to fixed values, so mkdtemp alone gives the SAME name in every process)
        _UP_ROOT[0] = os.path.join(tempfile.gettempdir(), "chx_c10_%d" % os.getpid())
        os.makedirs(_UP_ROOT[0], exist_ok=True)
        atexit.register(shutil.rmtree, _UP_ROOT[0], True)
        with open(os.path.join(_UP_ROOT[0], "models.py"), "wt") as f:
            f.write(UP_MODEL)
    _UP_N[0] += 1
    routes_path = os.path.join(_UP_ROOT[0], "routes_%d.py" % _UP_N[0])
    model_path = os.path.join(_UP_ROOT[0], "models.py")
    try:
        if existing:
            routes, pk = _gr.gen_routes(app="rest_api", model_path=model_path, model_name="Conf", crud=_crud(existing), route="/api/conf")
            _gr.upsert_routes(app="rest_api", routes=list(routes), routes_path=routes_path, route="/api/conf", primary_key=pk)
        routes, pk = _gr.gen_routes(app="rest_api", model_path=model_path, model_name="Conf", crud=_crud(wanted), route="/api/conf")
        _gr.upsert_routes(app="rest_api", routes=list(routes), routes_path=routes_path, route="/api/conf", primary_key=pk)
        with open(routes_path, "rt") as f:
            return f.read()
    finally:
        if os.path.exists(routes_path):
            os.remove(routes_path)


def nd_upsert_routes(existing, wanted, k0, k1, k2):
    ND.reset((k0, k1, k2))
    try:
        a = _upsert(existing, wanted)
    except Exception as e:
        a = "raised %s" % type(e).__name__
    ND.reset((), canonical=True)
    try:
        b = _upsert(existing, wanted)
    except Exception as e:
        b = "raised %s" % type(e).__name__
    if a != b:
        return "the routes file written by upsert_routes depends on set iteration order"
    return ""


def nd_upsert_routes_replay(existing, wanted, k0, k1, k2):
    return hashseed_diag("from harness.c10 import _upsert\nprint(_upsert(%d, %d))" % (existing, wanted))


for _ex in range(8):
    ob("C10", "nd.upsert_routes.e%d" % _ex, {"existing": R(_ex, _ex), "wanted": R(1, 7), "k0": R(0, 5), "k1": R(0, 5), "k2": R(0, 1)}, enum=True, T=900, tpath=120, replay=nd_upsert_routes_replay,
       tier="quick",
       funcs=["cdd.compound.openapi.gen_routes.gen_routes", "cdd.compound.openapi.gen_routes.upsert_routes"], assumes=[ND_ASSUME],
       bound="a routes file holding the routes %r of one model receives ANY non-empty requested subset of {create, read, destroy} (history of two upserts); the first three set "
             "iterations permuted by the solver: the resulting file text is the same as under the canonical order" % (_crud(_ex) or "none yet",))(nd_upsert_routes)


# ------------------------------------------------------------------------------- call history: ONE interface description handed to two emitters
def _emit_only(fmt, ir):
    """emit `ir` (the very object, no copy) in `fmt`; a comparable string"""
    import cdd.argparse_function.emit
    import cdd.class_.emit
    import cdd.docstring.emit
    import cdd.function.emit
    import cdd.json_schema.emit
    import cdd.pydantic.emit
    import cdd.sqlalchemy.emit as SE

    if fmt == "class":
        return ast.dump(cdd.class_.emit.class_(ir, class_name="C", word_wrap=False))
    if fmt == "pydantic":
        return ast.dump(cdd.pydantic.emit.pydantic(ir, class_name="C", word_wrap=False))
    if fmt == "function":
        return ast.dump(cdd.function.emit.function(ir, function_name="f", function_type="static", word_wrap=False))
    if fmt == "argparse":
        return ast.dump(cdd.argparse_function.emit.argparse_function(ir, function_name="set_cli_args", word_wrap=False))
    if fmt == "docstring":
        return cdd.docstring.emit.docstring(ir, word_wrap=False)
    if fmt == "json_schema":
        return json.dumps(cdd.json_schema.emit.json_schema(ir), sort_keys=True, default=str)
    if fmt == "sqlalchemy":
        return ast.dump(SE.sqlalchemy(ir, emit_repr=False, class_name="Config", table_name="config_tbl", word_wrap=False))
    if fmt == "sqlalchemy_table":
        return ast.dump(SE.sqlalchemy_table(ir, name="config_tbl", word_wrap=False))
    return ast.dump(SE.sqlalchemy_hybrid(ir, emit_repr=False, emit_create_from_attr=False, class_name="Config", table_name="config_tbl", word_wrap=False))


SHARED_TYPES = ("int", "str", "Optional[str]", "Literal['a', 'b']", "dict", "Optional[int]", "bool", "float")


def _shared_ir(t, dflt, with_pk):
    from collections import OrderedDict

    typ = _pick(SHARED_TYPES, t)
    p = {"typ": typ, "doc": "the owner"}
    if dflt and typ not in ("dict",):
        p["default"] = {"int": 0, "str": "s", "Optional[str]": "s", "Literal['a', 'b']": "a", "Optional[int]": 0, "bool": False, "float": 0.5}[typ]
    cols = [("id", {"typ": "int", "doc": "[PK] the id"})] if with_pk else []
    return {"name": "Config", "doc": "Header line.", "type": "static", "params": OrderedDict(cols + [("owner", p), ("z", {"typ": "Optional[str]", "doc": "zed"})]), "returns": None}


def _shared(f2):
    def body(f1, t, dflt, with_pk):
        """emitting into f2 from an interface description that was ALREADY emitted into f1 gives what a fresh copy gives; the description itself is unchanged"""
        from chx.shim import REPLAYING

        fm1 = _pick(HIST_FORMATS, f1)
        typ = _pick(SHARED_TYPES, t)
        t, dflt, with_pk = SHARED_TYPES.index(typ), bool(dflt), bool(with_pk)  # concrete from here on

        def run():
            ir, ref = _shared_ir(t, dflt, with_pk), _shared_ir(t, dflt, with_pk)
            try:
                fresh = _emit_only(f2, _shared_ir(t, dflt, with_pk))
            except Exception:
                return ""  # the later emitter rejects this interface anyway
            try:
                _emit_only(fm1, ir)
            except Exception:
                pass
            if repr(ir) != repr(ref):
                return "the %s emitter modified the interface description it was given: %r -> %r" % (fm1, dict(ref["params"]), dict(ir["params"]))
            try:
                after = _emit_only(f2, ir)
            except Exception as e:
                after = "raised %s" % type(e).__name__
            if after != fresh:
                return "%s emission differs when the same interface description was first emitted as %s" % (f2, fm1)
            return ""

        if REPLAYING():
            return run()
        from crosshair.tracers import NoTracing

        with NoTracing():  # the arguments are concrete: the emitters run at native speed on the real objects
            return run()

    return body


for _f2 in HIST_FORMATS:
    ob("C10", "hist.shared_ir.%s" % _f2, {"f1": R(0, len(HIST_FORMATS) - 1), "t": R(0, len(SHARED_TYPES) - 1), "dflt": BOOL, "with_pk": BOOL}, T=900, tpath=60,
       tier="quick" if _f2 in ("class", "json_schema", "sqlalchemy", "docstring") else "thorough",
       funcs=["cdd.class_.emit.class_", "cdd.function.emit.function", "cdd.argparse_function.emit.argparse_function", "cdd.pydantic.emit.pydantic", "cdd.json_schema.emit.json_schema",
              "cdd.docstring.emit.docstring", "cdd.sqlalchemy.emit.sqlalchemy", "cdd.sqlalchemy.emit.sqlalchemy_table", "cdd.sqlalchemy.emit.sqlalchemy_hybrid"],
       assumes=["SOLVER-ENUMERATED: the four arguments are the only symbolic values; once a path has fixed them the emitters run untraced on the real objects"],
       bound="ONE interface description object (parameter of type among %r, default present/absent, with or without an explicit [PK] column) is emitted by ANY of the %d emitters and then "
             "as %s (solver-enumerated): the description is unchanged by the first emitter and the second emission equals the emission from a fresh copy" % (SHARED_TYPES, len(HIST_FORMATS), _f2))(_shared(_f2))


# ------------------------------------------------------------------------------- call history: the SAME gen_module call twice in one process
def gen_twice_same(mask, infer, between):
    """two identical gen_module calls (optionally with an unrelated one in between) give byte-identical modules"""
    def once(m, i):
        try:
            return _dump(_gen(m, i))
        except Exception as e:
            return "raised %s" % type(e).__name__

    a = once(mask, infer)
    if between:
        once(between, True)
    b = once(mask, infer)
    if a != b:
        return "the same gen_module call gives a different module the second time in one process (first %d bytes, second %d bytes of AST dump)" % (len(a), len(b))
    return ""


ob("C10", "hist.gen_twice", {"mask": R(1, 7), "infer": BOOL, "between": R(0, 7)}, enum=True, isolated=True, T=1500,
   funcs=["cdd.compound.gen_utils.gen_module", "cdd.shared.ast_utils.infer_imports", "cdd.shared.ast_utils.optimise_imports"],
   bound="gen_module on ANY non-empty subset of three class entries, import inference on/off, called twice in ONE fresh process with nothing or another subset generated in between "
         "(solver-enumerated): the two results are identical")(gen_twice_same)
