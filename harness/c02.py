"""C02 - class / pydantic / function / argparse emit -> parse round trip (AST level; DESIGN.md section 6, C02)."""
from collections import OrderedDict

from chx.domain import ir_equiv
from chx.ob import BOOL, CP, PR, R, U, known_active, ob
from harness.formats import FORMAT_FUNCS, hop
from harness.shims import ADHOC_SHIMS_DOC

ASSUMPTIONS = ["AST level: the emitted ast object is handed to the parser; to_code + ast.parse of that object is assumed to reproduce it and is "
               "exercised on every replay (replays go through real text)",
               "word_wrap=False; descriptions compared up to whitespace and a terminal full stop; str defaults modulo one layer of quotes; None == NoneStr",
               "per-format normalisations applied exactly as listed in the property: a function parameter without default is shown as '=None'; "
               "argparse keeps a return entry only when it has a default"]


def S(cs):
    s = ""
    for c in cs:
        s = s + chr(c)
    return s


def mk_ir(params, ret=None, doc="Header line."):
    return {"name": "C", "doc": doc, "type": "static", "params": OrderedDict(params),
            "returns": OrderedDict((("return_type", ret),)) if ret else None}


def strip_default_prose(orig_doc, back_doc):
    """the emitter was asked to carry the default in the prose ('<doc>. Defaults to <v>'); the code parsers keep that prose"""
    from chx.domain import norm_doc

    o = norm_doc(orig_doc)
    b = "" if back_doc is None else back_doc.strip()
    if b.startswith(o):
        rest = b[len(o):].lstrip(" .")
        if rest.startswith("Defaults to "):
            return orig_doc
    return back_doc


def compare(fmt, ir, back, edd=False):
    """equivalence under the per-format normalisations listed by the property"""
    if edd:
        for k, v in back["params"].items():
            if k in ir["params"] and "default" in ir["params"][k] and "doc" in v:
                v["doc"] = strip_default_prose(ir["params"][k].get("doc"), v["doc"])
    a = {"params": OrderedDict((k, dict(v)) for k, v in ir["params"].items()), "returns": ir.get("returns"), "doc": ir.get("doc")}
    if fmt == "function":
        for k, v in a["params"].items():
            if "default" not in v:
                v["default"] = None  # shown as '=None'
    if fmt == "argparse":
        r = a["returns"]
        if r and "default" not in r["return_type"]:
            a["returns"] = None
    return ir_equiv(a, back, types=True, defaults=True, docs=True, header=True)


def run(fmt, ir, **kw):
    try:
        back = hop(fmt, ir, **kw)
    except Exception as e:
        return "%s emit->parse raised %s: %s" % (fmt, type(e).__name__, e)
    return compare(fmt, ir, back, edd=kw.get("emit_default_doc", False))


STYLES = ("rest", "google", "numpydoc")


def _strdflt(fmt, style, edd, **kw):
    def body(c0, c1):
        from harness.c01 import sig

        v = (sig(c0) + sig(c1)) if edd else S((c0, c1))
        return run(fmt, mk_ir([("a", {"typ": "int", "doc": "first arg", "default": 3}),
                               ("b", {"typ": "str", "doc": "second arg", "default": v})]), style=style, emit_default_doc=edd, **kw)

    return body


def _intdflt(fmt, style, edd, **kw):
    def body(i, b):
        return run(fmt, mk_ir([("a", {"typ": "int", "doc": "first arg", "default": i}),
                               ("b", {"typ": "bool", "doc": "second arg", "default": b})]), style=style, emit_default_doc=edd, **kw)

    return body


def _desc(fmt, style, edd, **kw):
    def body(c0, c1):
        return run(fmt, mk_ir([("a", {"typ": "int", "doc": "The " + S((c0, c1)), "default": 3})], doc="Head " + S((c1,)) + "."),
                   style=style, emit_default_doc=edd, **kw)

    return body


def _optdflt(fmt, style, edd, **kw):
    """Optional[...] parameters with FALSY and non-falsy defaults (0, False, '', 0.0 are easy to lose behind truthiness tests)"""
    def body(i, b, e):
        return run(fmt, mk_ir([("a", {"typ": "Optional[int]", "doc": "first arg", "default": i}),
                               ("b", {"typ": "Optional[bool]", "doc": "second arg", "default": b}),
                               ("c", {"typ": "Optional[str]", "doc": "third arg", "default": "x" if e else "yz"}),
                               ("d", {"typ": "Optional[float]", "doc": "fourth arg", "default": 0.0 if e else 1.5})]),
                   style=style, emit_default_doc=edd, **kw)

    return body


def _nodflt(fmt, style, edd, **kw):
    def body(k):
        t = ("int", "str", "float", "bool", "Optional[int]")[0]
        for j, cand in enumerate(("str", "float", "bool", "Optional[int]")):
            if k == j + 1:
                t = cand
        return run(fmt, mk_ir([("a", {"typ": t, "doc": "first arg"}), ("b", {"typ": "int", "doc": "second arg", "default": 2})],
                              ret={"typ": "int", "doc": "the result"}), style=style, emit_default_doc=edd, **kw)

    return body


VARIANTS = [("class", {}), ("pydantic", {}), ("function", {"type_annotations": True, "kwonly": False}),
            ("function", {"type_annotations": False, "kwonly": False}), ("function", {"type_annotations": True, "kwonly": True}), ("argparse", {})]
from harness.c01 import SIGMA  # noqa: E402

for _fmt, _kw in VARIANTS:
    _vt = _fmt + ("" if _fmt != "function" else (".ann" if _kw["type_annotations"] else ".doc") + (".kw" if _kw["kwonly"] else ""))
    for _style in ("rest", "google"):
        if _style == "google" and not (_fmt == "function" and not _kw["type_annotations"]):
            continue  # Google style is only registered where the docstring carries the types (function, types in docstring)
        for _edd in (False, True):
            _tier = "quick" if _style == "rest" else "thorough"
            _t = "%s.%s.%s" % (_vt, _style, "dflt" if _edd else "nodflt")
            ob("C02", "P1.strdflt.%s" % _t, {"c0": R(0, len(SIGMA) - 1), "c1": R(0, len(SIGMA) - 1)} if _edd else {"c0": PR, "c1": PR},
               tier=_tier if not _edd else "thorough", T=1200 if _edd else 200, funcs=FORMAT_FUNCS[_fmt], assumes=[ADHOC_SHIMS_DOC],
               bound="a:int=3, b:str with default = %s" % ("2 characters over the finite alphabet %r (the prose path realises the text)" % SIGMA if _edd else "ANY 2 printable characters"),
               )(_strdflt(_fmt, _style, _edd, **_kw))
            ob("C02", "P1.intdflt.%s" % _t, {"i": R(-20, 20) if not _edd else R(-3, 3), "b": BOOL}, enum=True, tier=_tier, T=300, funcs=FORMAT_FUNCS[_fmt], assumes=[ADHOC_SHIMS_DOC],
               bound="a:int with default %s, b:bool with default True/False" % ("-20..20" if not _edd else "-3..3"))(_intdflt(_fmt, _style, _edd, **_kw))
            ob("C02", "P1.desc.%s" % _t, {"c0": PR, "c1": PR}, pre="c0 != 47 and c1 != 47", tier=_tier if not _edd else "thorough", T=1200 if _edd else 600, funcs=FORMAT_FUNCS[_fmt],
               assumes=[ADHOC_SHIMS_DOC], bound="description 'The '+XY and prose 'Head '+Y+'.' for EVERY printable X, Y except '/'")(_desc(_fmt, _style, _edd, **_kw))
            ob("C02", "P1.optdflt.%s" % _t, {"i": R(-1, 1), "b": BOOL, "e": BOOL}, enum=True, tier=_tier, T=300, funcs=FORMAT_FUNCS[_fmt], assumes=[ADHOC_SHIMS_DOC],
               bound="Optional[int]=-1..1, Optional[bool]=True/False, Optional[str], Optional[float]=0.0/1.5 (falsy and truthy defaults)")(_optdflt(_fmt, _style, _edd, **_kw))
            if _fmt != "argparse" and _style != "google":  # Google + return entry inside an indented docstring: finding F22b
                ob("C02", "P1.nodflt.%s" % _t, {"k": R(0, 4)}, enum=True, tier=_tier, T=200, funcs=FORMAT_FUNCS[_fmt], assumes=[ADHOC_SHIMS_DOC],
                   bound="first parameter WITHOUT default of type int/str/float/bool/Optional[int], second with default, return entry int")(_nodflt(_fmt, _style, _edd, **_kw))


# P1.types: the non-scalar type shapes (Literal of 3, List, Union, dotted, nested Optional, Callable, Tuple, Dict) --------------------------
E = Ellipsis
TYPE_CASES = (("Literal['a', 'b', 'c']", "b"), ("Literal['a', 'b']", E), ("List[str]", E), ("Union[int, str]", 3), ("Union[int, str]", "x"), ("os.PathLike", E),
              ("Dict[str, int]", E), ("Callable[[int], str]", E), ("float", -0.5), ("int", 10 ** 20), ("complex", E), ("str", "a b"), ("float", 1e20),
              ("float", 1e-07), ("str", ""), ("Optional[List[int]]", E), ("Tuple[int, int]", E), ("List[Optional[str]]", E),
              ("Literal['sum', 'mean', 'none']", "mean"), ("Optional[Literal['valid', 'same']]", "same"), ("Literal['b', 'a', 'b']", "a"),  # members NOT in sorted order / repeated
              ("typing.Optional[int]", 5), ("Dict[str, typing.Any]", E), ("typing.List[str]", E), ("numpy.typing.ArrayLike", E))  # module-qualified spellings of the same types
ARGPARSE_CASES = (0, 8, 9, 11, 12, 13, 14, 18, 19, 20)  # what an add_argument call can carry WITH a default (without: finding F23); the others are finding F40


def _types(fmt, style, edd, cases, **kw):
    def body(kind, x):
        t, d = TYPE_CASES[cases[0]]
        for k in cases[1:]:
            if kind == k:
                t, d = TYPE_CASES[k]
        p = {"typ": t, "doc": "the " + chr(x) + " arg"}
        first = {"typ": "int", "doc": "first arg"}
        if d is not E:
            p["default"] = d
            first["default"] = 1
        params = [("b", p), ("a", first)] if d is E else [("a", first), ("b", p)]
        return run(fmt, mk_ir(params), style=style, emit_default_doc=edd, **kw)

    return body


for _fmt, _kw in VARIANTS:
    _vt = _fmt + ("" if _fmt != "function" else (".ann" if _kw["type_annotations"] else ".doc") + (".kw" if _kw["kwonly"] else ""))
    _all = ARGPARSE_CASES if _fmt == "argparse" else tuple(range(len(TYPE_CASES)))
    for _edd in (False, True):
        for _j in range(0, len(_all), 3):
            _cs = _all[_j:_j + 3]
            ob("C02", "P1.types.%s.rest.%s.k%d" % (_vt, "dflt" if _edd else "nodflt", _cs[0]), {"kind": R(_cs[0], _cs[-1]), "x": PR},
               pre="x != 47 and (" + " or ".join("kind == %d" % c for c in _cs) + ")", tier="thorough" if _edd or _kw.get("kwonly") or _fmt == "pydantic" or _kw.get("type_annotations") is False else "quick", T=400, tpath=60,
               funcs=FORMAT_FUNCS[_fmt], assumes=[ADHOC_SHIMS_DOC],
               bound="two parameters; one of type %s (with the listed default or none); description 'the '+X+' arg' for every printable X except '/'" % ", ".join(
                   "%s%s" % (TYPE_CASES[c][0], "" if TYPE_CASES[c][1] is E else "=%r" % (TYPE_CASES[c][1],)) for c in _cs))(_types(_fmt, "rest", _edd, _cs, **_kw))


def w_argparse_types(k):
    cs = (3, 4, 5, 6, 7, 16, 17)
    return _types("argparse", "rest", False, cs)(cs[k], 97)


ob("C02", "F40.argparse_type_collapse", {"k": R(0, 6)}, tier="witness", T=60, twin=False, funcs=FORMAT_FUNCS["argparse"],
   bound="witness of F40")(w_argparse_types)


# witnesses of recorded findings (thorough tier; not expected to hold) -----------------------------------------------
def w_numpydoc_in_code(k):
    return _nodflt("function", "numpydoc", False, type_annotations=False, kwonly=False)(k)


def w_class_google_return(k):
    return _nodflt("class", "google", False)(k)


def w_argparse_required(k):
    return _nodflt("argparse", "rest", False)(k)


ob("C02", "F21b.numpydoc_in_function", {"k": R(0, 4)}, tier="witness", T=60, twin=False, funcs=FORMAT_FUNCS["function"], bound="witness of F21b")(w_numpydoc_in_code)
ob("C02", "F22.class_google_return", {"k": R(0, 4)}, tier="witness", T=60, twin=False, funcs=FORMAT_FUNCS["class"], bound="witness of F22")(w_class_google_return)
ob("C02", "F23.argparse_required", {"k": R(0, 4)}, tier="witness", T=60, twin=False, funcs=FORMAT_FUNCS["argparse"], bound="witness of F23")(w_argparse_required)


def w_function_google_return(k):
    return _nodflt("function", "google", False, type_annotations=False, kwonly=False)(k)


ob("C02", "F22b.function_google_return", {"k": R(0, 4)}, tier="witness", T=60, twin=False, funcs=FORMAT_FUNCS["function"], bound="witness of F22b")(w_function_google_return)
