"""Pure-Python stand-ins for C helpers that hash (realise) symbolic strings (DESIGN.md 2.1 item 6).
Same functions, different implementation; applied with chx.shim.shim only under the engine."""
from keyword import kwlist


def iskeyword_linear(s):
    for k in kwlist:
        if s == k:
            return True
    return False


class CounterLinear:
    """collections.Counter(e)[ch] by == comparison"""

    def __init__(self, it=()):
        self._items = list(it)

    def __getitem__(self, key):
        n = 0
        for x in self._items:
            if x == key:
                n += 1
        return n


ADHOC_SHIMS = dict(iskeyword=iskeyword_linear, Counter=CounterLinear)
ADHOC_SHIMS_DOC = ("shim: cdd.docstring.utils.parse_utils.iskeyword / Counter -> pure-Python linear-scan equivalents under the engine "
                   "(the C versions hash the symbolic word); replays use the originals")
