"""C15 - docstring prose outside the parameter section is preserved (DESIGN.md section 6, C15)."""
import os
import random

from chx.ob import BOOL, CP, PR, R, U, ob
from harness.skeletons import EXTRA_SKELETONS, SKELETONS, indented

FUNCS = [
    "cdd.shared.docstring_utils.parse_docstring_into_header_args_footer",
    "cdd.shared.docstring_utils._get_token_start_idx", "cdd.shared.docstring_utils._get_token_last_idx",
    "cdd.shared.docstring_utils._last_doc_str_token", "cdd.shared.docstring_utils._get_start_of_last_found",
    "cdd.shared.docstring_utils._get_end_of_last_found", "cdd.shared.docstring_utils._get_end_of_last_found_numpydoc",
    "cdd.shared.docstring_utils._find_end_of_args_returns",
    "cdd.shared.docstring_utils._get_token_last_idx_if_no_next_token",
    "cdd.shared.docstring_utils.derive_docstring_format",
]
SEED = int(os.environ.get("VERIF_SEED", "0") or 0)


def S(cs):
    s = ""
    for c in cs:
        s = s + chr(c)
    return s


def tiling(doc, literal=True):
    """header is a prefix, footer a suffix, they do not overlap; where the section is indented <= 1 column the
    three returned parts concatenate to the original exactly"""
    from cdd.shared.docstring_utils import parse_docstring_into_header_args_footer

    h, a, f = parse_docstring_into_header_args_footer(doc, doc)
    H = "" if h is None else h
    F = "" if f is None else f
    A = "" if a is None else a
    if not doc.startswith(H):
        return "header is not a prefix of the docstring"
    if not doc.endswith(F):
        return "footer is not a suffix of the docstring"
    if len(H) + len(F) > len(doc):
        return "header and footer overlap"
    middle = doc[len(H): len(doc) - len(F)]
    if literal:
        ind = 0
        for ch in middle:
            if not ch.isspace():
                break
            ind += 1
        if ind <= 1 and H + A + F != doc:
            return "header + section + footer != original (section indented <= 1 column)"
    return ""


def _raw(n):
    def body(*cs):
        return tiling(S(cs))

    body.__name__ = "P1_n%d" % n
    return body


for _n, _tier, _T in ((0, "quick", 30), (1, "quick", 60), (2, "quick", 90), (3, "quick", 240), (4, "thorough", 1500)):
    ob("C15", "P1.n%d" % _n, {"c%d" % i: CP for i in range(_n)}, tier=_tier, T=_T, funcs=FUNCS,
       bound="every docstring of exactly %d Unicode code points" % _n)(_raw(_n))


# --- 1-code-point perturbations of style skeletons at several indents -----------------------------------
def _pert(doc, pos, mode):
    def body(c):
        ch = chr(c)
        d = doc[:pos] + ch + (doc[pos:] if mode == "ins" else doc[pos + 1:])
        return tiling(d)

    body.__name__ = "P1_skel_%s_%d" % (mode, pos)
    return body


_ALL = []
for _style, _doc in list(SKELETONS.items()) + list(EXTRA_SKELETONS.items()):
    for _ind in (0, 2, 4, 8):
        _d = indented(_doc, _ind)
        for _pos in range(len(_d) + 1):
            for _mode in ("ins", "sub"):
                if _mode == "sub" and _pos >= len(_d):
                    continue
                _ALL.append((_style, _ind, _pos, _mode, _d))
_rnd = random.Random(SEED)
_QUICK = set(_rnd.sample(range(len(_ALL)), 40))
# thorough: every position of indents 0 and 4 (insertions), and the seeded sample
for _i, (_style, _ind, _pos, _mode, _d) in enumerate(_ALL):
    _quick = _i in _QUICK
    if not _quick and not (_mode == "ins" and _ind in (0, 4)):
        continue
    ob("C15", "P1.skel.%s.i%d.%s%03d" % (_style, _ind, _mode, _pos), {"c": CP},
       tier="quick" if _quick else "thorough", T=120, funcs=FUNCS,
       bound="the %s skeleton (%d chars, section indented %d) with ANY code point %s at offset %d" % (
           _style, len(_d), _ind, "inserted" if _mode == "ins" else "substituted", _pos),
       )(_pert(_d, _pos, _mode))


# --- K1: header_args_footer_to_str keeps header prefix, footer suffix, section text --------------------
def _k1(n):
    def body(*cs):
        from cdd.shared.docstring_utils import header_args_footer_to_str

        k = len(cs) // 3
        h, a, f = S(cs[:k]), S(cs[k:2 * k]), S(cs[2 * k:])
        out = header_args_footer_to_str(h, a, f)
        if not out.startswith(h):
            return "result does not start with the header"
        if not out.endswith(f):
            return "result does not end with the footer"
        if len(out) < len(h) + len(a) + len(f):
            return "characters lost"
        # every line of the section is present (modulo the indentation the function adds), in order
        at = len(h)
        for line in a.split("\n"):
            t = line.strip()
            if t:
                j = out.find(t, at)
                if j < 0:
                    return "a section line is missing from the result"
                at = j + len(t)
        return ""

    body.__name__ = "K1_n%d" % n
    return body


for _k, _tier, _T in ((1, "quick", 120), (2, "thorough", 900)):
    ob("C15", "K1.n%d" % _k, {"c%d" % i: CP for i in range(3 * _k)}, tier=_tier, T=_T,
       funcs=["cdd.shared.docstring_utils.header_args_footer_to_str", "cdd.shared.pure_utils.num_of_nls",
              "cdd.shared.pure_utils.count_chars_from"],
       bound="header, section, footer each of exactly %d arbitrary code points" % _k)(_k1(_k))


# --- P3: no prose line is absorbed into a parameter's or the return's type or default ------------------------------------------
def _absorb(doc, pos):
    def body(c):
        import cdd.docstring.utils.parse_utils as pu
        from cdd.shared.docstring_parsers import parse_docstring
        from chx.shim import shim
        from harness.shims import ADHOC_SHIMS

        d = doc[:pos] + chr(c) + doc[pos:]
        with shim(pu, **ADHOC_SHIMS):
            try:
                ir = parse_docstring(d)
            except Exception:
                return ""
        entries = list(ir["params"].items()) + (list(ir["returns"].items()) if ir.get("returns") else [])
        for name, e in entries:
            for key in ("typ", "default"):
                v = e.get(key)
                if isinstance(v, str) and ("Footerprose" in v or "Header line" in v or "More header" in v):
                    return "prose absorbed into the %s of %s: %r" % (key, name, v)
        return ""

    return body


_P3 = []
for _name, _doc in list(EXTRA_SKELETONS.items()) + [("rest", SKELETONS["rest"])]:
    for _ind in (0, 4):
        _d = indented(_doc, _ind)
        for _pos in range(len(_d) + 1):
            _P3.append((_name, _ind, _pos, _d))
_P3S = [i for i, (_n0, _i0, _p0, _d0) in enumerate(_P3) if len(_d0) <= 120]  # quick tier: docstrings of <= 120 characters (a symbolic hole in a longer text costs > 300 CPU-seconds)
_P3Q = set(random.Random(SEED + 1).sample(_P3S, 20))
for _i, (_name, _ind, _pos, _d) in enumerate(_P3):
    _q = _i in _P3Q or ((_pos == len(_d) or _pos == 0) and len(_d) <= 120)
    ob("C15", "P3.absorb.%s.i%d.ins%03d" % (_name, _ind, _pos), {"c": CP}, tier="quick" if _q else "thorough", T=300 if len(_d) <= 120 else 900,
       funcs=["cdd.shared.docstring_parsers.parse_docstring", "cdd.shared.docstring_parsers._parse_phase_rest", "cdd.shared.docstring_parsers._set_param_values",
              "cdd.shared.docstring_parsers._fill_doc_with_afterward"],
       bound="%s docstring with footer (indent %d) and ANY code point inserted at offset %d: no header/footer prose inside any typ/default" % (_name, _ind, _pos))(_absorb(_d, _pos))


# --- P3.plain: the UNDAMAGED footer-carrying docstrings: parsing succeeds (they are well-formed members of the quantifier's domain) and nothing is absorbed ---------
def _plain(doc):
    def body(c):
        import cdd.docstring.utils.parse_utils as pu
        from cdd.shared.docstring_parsers import parse_docstring
        from chx.shim import shim
        from harness.shims import ADHOC_SHIMS

        d = doc.replace("Footerprose notes", "Footerprose not" + chr(c) + "s")
        with shim(pu, **ADHOC_SHIMS):
            try:
                ir = parse_docstring(d)
            except Exception as e:
                return "a well-formed docstring (header, generated section, footer) is rejected by the parser: %s: %s" % (type(e).__name__, e)
        entries = list(ir["params"].items()) + (list(ir["returns"].items()) if ir.get("returns") else [])
        for name, e in entries:
            for key in ("typ", "default"):
                v = e.get(key)
                if isinstance(v, str) and ("Footerprose" in v or "Header line" in v or "More header" in v):
                    return "prose absorbed into the %s of %s: %r" % (key, name, v)
        return ""

    return body


for _name, _doc in EXTRA_SKELETONS.items():
    if "Footerprose notes" not in _doc:
        continue
    for _ind in (0, 4):
        ob("C15", "P3.plain.%s.i%d" % (_name, _ind), {"c": PR}, enum=True, pre="c != 46 and c != 58", T=300,
           funcs=["cdd.shared.docstring_parsers.parse_docstring", "cdd.shared.defaults_utils.extract_default"],
           bound="the %s docstring with footer at indent %d, one footer word carrying ANY printable character except '.' and ':' (a colon turns a NumPy-style line into a name : type entry by that format's own grammar): the parser accepts it and no header/footer prose is inside any typ/default" % (_name, _ind),
           )(_plain(indented(_doc, _ind)))


# --- P4: style conversion keeps every header line, in order ---------------------------------------------------------------------
HEAD = ("Summary line %s here.", "", "Long description first line.", "Second %s line of it.")
SECTIONS = {
    "rest": ":param a: desc a\n:type a: ```int```\n\n:return: ret\n:rtype: ```str```\n",
    "google": "Args:\n  a (int): desc a\n\nReturns:\n  str:\n   ret\n",
    "numpydoc": "Parameters\n----------\na : int\n    desc a\n\nReturns\n-------\nstr\n    ret\n",
}


def _convert(src_style, dst_style, carry_original):
    def body(c0, c1, indent_level, wrapped):
        import cdd.docstring.emit
        import cdd.docstring.utils.parse_utils as pu
        from cdd.shared.docstring_parsers import parse_docstring
        from chx.shim import shim
        from harness.shims import ADHOC_SHIMS

        word = chr(c0) + chr(c1)
        if word.strip() != word or "\n" in word or "\r" in word:
            return ""
        lines = [HEAD[0].replace("%s", word), HEAD[1], HEAD[2], HEAD[3].replace("%s", word)]
        if wrapped:  # the summary paragraph itself is wrapped over two lines
            lines = [lines[0], "which continues on a second line."] + lines[1:]
        doc = "\n".join(lines) + "\n\n" + SECTIONS[src_style]
        with shim(pu, **ADHOC_SHIMS):
            try:
                ir = parse_docstring(doc)
            except Exception:
                return ""
            if carry_original:
                ir["_internal"] = {"original_doc_str": doc}
            try:
                out = cdd.docstring.emit.docstring(ir, docstring_format=dst_style, word_wrap=False, indent_level=indent_level)
            except Exception as e:
                return "conversion raised %s: %s" % (type(e).__name__, e)
        at = 0
        for ln in lines:
            t = ln.strip()
            if not t:
                continue
            j = out.find(t, at)
            if j < 0:
                return "header line %r is missing (or out of order) in the converted docstring" % (t,)
            at = j + len(t)
        for name, e in list(ir["params"].items()) + (list(ir["returns"].items()) if ir.get("returns") else []):
            for key in ("typ", "default"):
                v = e.get(key)
                if isinstance(v, str) and ("Summary line" in v or "Long description" in v):
                    return "header prose absorbed into the %s of %s" % (key, name)
        return ""

    return body


def _convert_fixed(src_style, dst_style, indent_level, wrapped):
    inner = _convert(src_style, dst_style, True)

    def body(c0, c1):
        return inner(c0, c1, indent_level, wrapped)

    return body


_P4_FUNCS = ["cdd.shared.docstring_parsers.parse_docstring", "cdd.docstring.emit.docstring", "cdd.shared.docstring_utils.parse_docstring_into_header_args_footer",
             "cdd.shared.docstring_utils.header_args_footer_to_str"]
for _src in SECTIONS:
    for _dst in SECTIONS:
        if _src == _dst:
            continue
        _q = _src == "rest"
        # without the original docstring the emitter works from the IR only: indentation and header shape stay solver-chosen
        ob("C15", "P4.convert.%s_to_%s.noorig" % (_src, _dst), {"c0": R(33, 126), "c1": R(33, 126), "indent_level": R(0, 2), "wrapped": BOOL}, pre="c0 != 47 and c1 != 47",
           tier="quick" if _dst == "rest" else "thorough", T=900, funcs=_P4_FUNCS,
           bound="%s docstring with a 4-line header (or 5-line: summary paragraph wrapped over two lines) containing ANY 2 printable non-blank characters (twice), "
                 "converted to %s at indent_level 0..2 without the original docstring carried along: "
                 "every header line present, in order; no header prose in a typ/default" % (_src, _dst))(_convert(_src, _dst, False))
        # with the original docstring the splitter runs on the symbolic text: one obligation per (indent_level, header shape)
        for _il in (0, 1, 2):
            for _wr in (False, True):
                ob("C15", "P4.convert.%s_to_%s.orig.i%d%s" % (_src, _dst, _il, "w" if _wr else ""), {"c0": R(33, 126), "c1": R(33, 126)}, pre="c0 != 47 and c1 != 47",
                   tier="quick" if _q and (_il, _wr) in ((0, False), (1, True), (2, False)) else "thorough", T=400, funcs=_P4_FUNCS,
                   bound="%s docstring with a %s header containing ANY 2 printable non-blank characters (twice), converted to %s at indent_level %d with the original "
                         "docstring carried along: every header line present, in order; no header prose in a typ/default" % (
                             _src, "5-line (summary paragraph wrapped over two lines)" if _wr else "4-line", _dst, _il))(_convert_fixed(_src, _dst, _il, _wr))


# --- P5: the header part IS the header: section titles are recognised at every indentation ------------------------------------------------
def _header_is_header(doc, pos, want_lines):
    def body(c):
        from cdd.shared.docstring_utils import parse_docstring_into_header_args_footer

        ch = chr(c)
        if ch == "\n" or ch == "\r" or ch.isspace() or ch == ":" or ch == "-":
            return ""
        d = doc[:pos] + ch + doc[pos:]
        h, a, f = parse_docstring_into_header_args_footer(d, d)
        got = [ln.strip() for ln in ("" if h is None else h).split("\n") if ln.strip()]
        if got != want_lines:
            return "the header part is %r, expected the header prose %r" % (got, want_lines)
        for ln in want_lines:
            if a is not None and ln in a:
                return "header prose ended up inside the parameter section part"
        return ""

    return body


for _style, _doc in SKELETONS.items():
    for _ind in (0, 2, 4, 8):
        _d = indented(_doc, _ind)
        _pos = _d.index("desc a") + 3
        ob("C15", "P5.header.%s.i%d" % (_style, _ind), {"c": CP}, tier="quick", T=200, funcs=FUNCS,
           bound="%s skeleton indented %d with ANY non-blank code point (not ':' or '-') inserted inside a parameter description: the header part is exactly the two header lines, "
                 "none of them inside the section part" % (_style, _ind))(_header_is_header(_d, _pos, ["Header line.", "More header."]))


# --- P6: header prose that LOOKS like markup (sub-title underlines, rules, tables, bullet lists, literal blocks) survives the split and the conversion ------------------
MARKUP = (("Details", "-------"), ("=========",), ("+-----+-----+", "| a   | b   |", "+-----+-----+"), ("* item one", "* item two"), ("Example::", "", "    code()"), (".. note:: take care",),
          ("~~~~~~~~~~",), ("-- dashed aside --",), ("Overview", "--------", "More words."), ("----------",), ("key - value",), ("a > b and c < d",))


def header_markup(src, dst, m, indent_level, carry_original, footer):
    import cdd.docstring.emit
    from cdd.shared.docstring_parsers import parse_docstring
    from cdd.shared.docstring_utils import parse_docstring_into_header_args_footer

    styles = ("rest", "google", "numpydoc")
    lines = ["Summary line here.", ""] + list(MARKUP[m]) + ["", "Closing sentence of the header."]
    doc = "\n".join(lines) + "\n\n" + SECTIONS[styles[src]] + ("\nFooterprose notes.\n" if footer else "")
    h, a, f = parse_docstring_into_header_args_footer(doc, doc)
    if (h or "") + (a or "") + (f or "") != doc:
        return "header + section + footer do not concatenate back to the docstring"
    want = [ln.strip() for ln in lines if ln.strip()]
    got = [ln.strip() for ln in (h or "").split("\n") if ln.strip()]
    if got != want:
        return "the header part is %r, expected %r" % (got, want)
    try:
        ir = parse_docstring(doc)
    except Exception as e:
        return "a well-formed docstring whose header contains markup is rejected: %s: %s" % (type(e).__name__, e)
    if carry_original:
        ir["_internal"] = {"original_doc_str": doc}
    try:
        out = cdd.docstring.emit.docstring(ir, docstring_format=styles[dst], word_wrap=False, indent_level=indent_level)
    except Exception as e:
        return "conversion raised %s: %s" % (type(e).__name__, e)
    at = 0
    for t in want:
        j = out.find(t, at)
        if j < 0:
            return "header line %r is missing (or out of order) in the docstring converted to %s" % (t, styles[dst])
        at = j + len(t)
    return ""


for _m in range(len(MARKUP)):
    ob("C15", "P6.header_markup.m%02d" % _m, {"src": R(0, 2), "dst": R(0, 2), "m": R(_m, _m), "indent_level": R(0, 2), "carry_original": BOOL, "footer": BOOL}, enum=True, T=600,
       funcs=_P4_FUNCS + ["cdd.shared.docstring_utils._get_token_start_idx", "cdd.shared.docstring_utils._get_token_last_idx"],
       bound="docstring whose multi-paragraph header contains the markup lines %r, a generated section in ANY source style, footer or not; split, then converted to ANY style at indent_level 0..2 "
             "with or without the original docstring carried (solver-enumerated): the three parts concatenate back, the header part is exactly the header, every header line is present, in order"
             % (MARKUP[_m],))(header_markup)
