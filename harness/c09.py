"""C09 - the concrete syntax tree is lossless for every input string (DESIGN.md section 6, C09)."""
from chx.ob import BOOL, CP, PR, R, U, ob

FUNCS = [
    "cdd.shared.cst_utils.cst_scanner", "cdd.shared.cst_utils.cst_scan",
    "cdd.shared.pure_utils.balanced_parentheses", "cdd.shared.pure_utils.is_triple_quoted",
]
PFUNCS = FUNCS + ["cdd.shared.cst.cst_parse", "cdd.shared.cst_utils.cst_parser",
                  "cdd.shared.cst_utils.cst_parse_one_node", "cdd.shared.cst_utils.infer_cst_type",
                  "cdd.shared.cst_utils.get_construct_name"]


def S(cs):
    s = ""
    for c in cs:
        s = s + chr(c)
    return s


def lossless(s):
    from cdd.shared.cst_utils import cst_scanner

    out = cst_scanner(s)
    joined = ""
    for piece in out:
        if type(piece) is not str and not isinstance(piece, str):
            return "cst_scanner returned a non-str chunk"
        joined = joined + piece
    if joined != s:
        return "concatenation of cst_scanner(s) differs from s"
    return ""


INFER_STUB = ("stub: cdd.shared.cst_utils.infer_cst_type -> constant UnchangingLine for SYMBOLIC statements under the engine, the real function for concrete ones (it hashes the words "
              "into an OrderedDict/frozenset, which realises them; the node *kind* is not part of the tiling property; "
              "line accounting and get_construct_name run unmodified; replays use the real function)")


def _unchanging(statement_stripped, words):
    """constant for symbolic statements; the real classification for concrete ones (so that e.g. comment nodes keep their kind)"""
    from cdd.shared.cst_utils import UnchangingLine

    symbolic = True
    try:
        from crosshair.tracers import NoTracing
        from crosshair.util import CrossHairValue

        with NoTracing():
            symbolic = isinstance(statement_stripped, CrossHairValue)
    except ImportError:  # pragma: no cover
        symbolic = False
    if not symbolic and _REAL_INFER[0] is not None:
        return _REAL_INFER[0](statement_stripped, words)
    return UnchangingLine


_REAL_INFER = [None]
try:
    import cdd.shared.cst_utils as _cu0

    _REAL_INFER[0] = _cu0.infer_cst_type
except Exception:  # pragma: no cover
    pass


def tiles(s):
    import cdd.shared.cst_utils as cu
    from cdd.shared.cst import cst_parse
    from chx.shim import shim

    with shim(cu, infer_cst_type=_unchanging):
        nodes = cst_parse(s)
    joined = ""
    for n in nodes:
        joined = joined + n.value
    if joined != s:
        return "concatenation of cst_parse(s) node values differs from s"
    if len(nodes) == 0:
        return ""
    if nodes[0].line_no_start != 1:
        return "first node does not start at line 1"
    prev = None
    for n in nodes:
        if prev is not None and n.line_no_start != prev.line_no_end:
            return "node does not start on the line where the previous one ended"
        if n.line_no_end - n.line_no_start != n.value.count("\n"):
            return "node does not span as many line breaks as its text contains"
        prev = n
    return ""


def _mk(kind, n):
    def body(*cs):
        s = S(cs)
        return lossless(s) if kind == "P1" else tiles(s)

    body.__name__ = "%s_n%d" % (kind, n)
    return body


def _args(n):
    return {"c%d" % i: CP for i in range(n)}


for _n, _tier, _T in ((0, "quick", 30), (1, "quick", 60), (2, "quick", 120), (3, "quick", 400)):
    ob("C09", "P1.n%d" % _n, _args(_n), tier=_tier, T=_T, funcs=FUNCS, twin=True,
       bound="every string of exactly %d Unicode code points (each position ranges over all 1 114 112)" % _n,
       )(_mk("P1", _n))

for _n, _tier, _T in ((0, "quick", 30), (1, "quick", 60), (2, "quick", 200), (3, "thorough", 900)):
    ob("C09", "P2.n%d" % _n, _args(_n), tier=_tier, T=_T, funcs=PFUNCS, assumes=[INFER_STUB],
       bound="every string of exactly %d Unicode code points: node values concatenate to the input and line ranges tile" % _n,
       )(_mk("P2", _n))

# n = 4 in shards by the class of the first character; cover of the shards is checked by z3 (driver)
SHARDS4 = {
    "nl": [(10, 10)], "blank": [(9, 9), (11, 13), (32, 32)], "hash": [(35, 35)], "bslash": [(92, 92)],
    "squote": [(39, 39)], "dquote": [(34, 34)], "open": [(40, 40), (91, 91), (123, 123)],
    "close": [(41, 41), (93, 93), (125, 125)], "at": [(64, 64)], "colon": [(58, 58)],
    "dc": [(99, 100)],
    "ascii": [(0, 8), (14, 31), (33, 33), (36, 38), (42, 57), (59, 63), (65, 90), (94, 98), (101, 122),
              (124, 124), (126, 127)],
    "nonascii": [(128, 0x10FFFF)],
}
COVERS = {"P1.n4": ("c0", (0, 0x10FFFF), SHARDS4)}

for _name, _ranges in SHARDS4.items():
    ob("C09", "P1.n4.%s" % _name, _args(4), tier="thorough", T=900, funcs=FUNCS,
       pre=" or ".join("%d <= c0 <= %d" % r for r in _ranges),
       bound="every string of 4 code points whose first character is in class %r %r" % (_name, _ranges),
       )(_mk("P1", 4))


# K1: one step of cst_scan from an arbitrary stack: nothing is lost or invented -----------------------
def _k1(n):
    def body(*cs):
        from cdd.shared.cst_utils import cst_scan

        s = S(cs)
        scanned, stack = [], list(s)
        cst_scan(scanned, stack)
        joined = ""
        for piece in scanned:
            joined = joined + piece
        for ch in stack:
            joined = joined + ch
        if joined != s:
            return "cst_scan lost or invented characters: scanned+stack != previous stack"
        return ""

    body.__name__ = "K1_n%d" % n
    return body


for _n, _tier, _T in ((1, "quick", 60), (2, "quick", 120), (3, "thorough", 600)):
    ob("C09", "K1.n%d" % _n, _args(_n), tier=_tier, T=_T, funcs=FUNCS[1:],
       bound="one call of cst_scan from every stack of exactly %d code points (inductive step of the scanner loop)" % _n,
       )(_k1(_n))


# K2: line accounting of the parser over a sequence of chunks (public cst_parser; no assumption about its internal state) --------------
PREFIXES = ("x = 1", "\ndef f():", "\nclass A:", "\n    # comment", "\n\n\ny = (1,\n 2)", '\n    """doc\n    """')


def _k2(n):
    def body(p0, p1, *cs):
        from cdd.shared.cst_utils import cst_parser
        import cdd.shared.cst_utils as cu
        from chx.shim import shim

        pre0, pre1 = PREFIXES[0], PREFIXES[0]
        for k in range(1, len(PREFIXES)):
            if p0 == k:
                pre0 = PREFIXES[k]
            if p1 == k:
                pre1 = PREFIXES[k]
        chunks = [pre0, pre1, S(cs), "\nz = 3"]
        with shim(cu, infer_cst_type=_unchanging):
            nodes = cst_parser(list(chunks))
        if len(nodes) != len(chunks):
            return "cst_parser returned %d nodes for %d chunks" % (len(nodes), len(chunks))
        line = 1
        for node, chunk in zip(nodes, chunks):
            if node.value != chunk:
                return "node value is not its chunk"
            if node.line_no_start != line:
                return "node starts at line %r, the previous one ended at line %d" % (node.line_no_start, line)
            if node.line_no_end != line + chunk.count("\n"):
                return "node end != start + number of line breaks in its text"
            line = node.line_no_end
        return ""

    body.__name__ = "K2_n%d" % n
    return body


for _n, _tier, _T in ((1, "quick", 120), (2, "quick", 300), (3, "thorough", 1500)):
    ob("C09", "K2.n%d" % _n, dict({"p0": R(0, len(PREFIXES) - 1), "p1": R(0, len(PREFIXES) - 1)}, **_args(_n)), tier=_tier, T=_T,
       funcs=PFUNCS[-4:], assumes=[INFER_STUB],
       bound="cst_parser on [P, Q, S, 'z = 3'] with P, Q ANY of %d concrete chunks (assignment, def/class header, comment line, multi-line statement, docstring) and "
             "S ANY %d code points: each node is its chunk, starts where the previous ended, spans its line breaks" % (len(PREFIXES), _n))(_k2(_n))


# P4: corpus neighbourhood - windows cut from /repo's own sources, one symbolic code point substituted or inserted ----------------------
import glob as _glob  # noqa: E402
from chx.ob import REPO as _REPO  # noqa: E402
import os as _os  # noqa: E402
import random as _random  # noqa: E402

_SEED = int(_os.environ.get("VERIF_SEED", "0") or 0)
FEATURES = (("decorator", "@"), ("triple_dq", '"""'), ("continuation", "\\\n"), ("nested", "(("), ("comment", "  #"), ("dict", "{"), ("class", "class "),
            ("lambda", "lambda "), ("fstring", '".format('), ("triple_sq", "'''"), ("semicolon", ";"), ("def_multiline", "def "))


def _windows(limit=72):
    """first window (whole lines, <= limit chars) showing each lexical feature, taken in sorted file order from the current tree"""
    out = {}
    files = sorted(f for f in _glob.glob(_REPO + "/cdd/**/*.py", recursive=True) if "/tests/" not in f)
    for feat, needle in FEATURES:
        for fn in files:
            try:
                lines = open(fn).read().split("\n")
            except OSError:
                continue
            hit = None
            for i in range(len(lines)):
                w = ""
                j = i
                while j < len(lines) and len(w) + len(lines[j]) + 1 <= limit:
                    w += lines[j] + "\n"
                    j += 1
                if needle in w and len(w) > 20:
                    hit = (fn[len(_REPO) + 1:], i + 1, w)
                    break
            if hit:
                out[feat] = hit
                break
    return out


WINDOWS = _windows()


def _win(text, pos, mode):
    def body(c):
        ch = chr(c)
        s = text[:pos] + ch + (text[pos:] if mode == "ins" else text[pos + 1:])
        d = lossless(s)
        return d or tiles(s)

    return body


_WALL = [(feat, pos, mode) for feat, (fn, ln, text) in sorted(WINDOWS.items()) for pos in range(len(text) + 1) for mode in ("ins", "sub")
         if not (mode == "sub" and pos >= len(text))]
_WQ = set(_random.Random(_SEED).sample(range(len(_WALL)), min(32, len(_WALL))))
for _i, (_feat, _pos, _mode) in enumerate(_WALL):
    _fn, _ln, _text = WINDOWS[_feat]
    ob("C09", "P4.win.%s.%s%03d" % (_feat, _mode, _pos), {"c": CP}, tier="quick" if _i in _WQ else "thorough", T=200, funcs=PFUNCS, assumes=[INFER_STUB],
       bound="window of %d chars from %s:%d (feature %s) with ANY code point %s at offset %d: lossless scan and tiling" % (
           len(_text), _fn, _ln, _feat, "inserted" if _mode == "ins" else "substituted", _pos))(_win(_text, _pos, _mode))


# P3: sequences over the LEXICAL alphabet of the property's quantifier (multi-character tokens: triple quotes, 'def ', 'class ', continuations) ----------
TOKENS = ("\n", "    ", '"', "'", '"""', "'''", "#", "\\", "(", ")", "[", "]", ":", "=", "@", ";", "def ", "class ", "x", " ", "\\\n", "{", "}", ",")


def _pick_tok(t):
    tok = TOKENS[0]
    for k in range(1, len(TOKENS)):
        if t == k:
            tok = TOKENS[k]
    return tok


def _p3(first, k):
    def body(t1=None, t2=None, t3=None, t4=None):
        s = TOKENS[first]
        for t in (t1, t2, t3, t4)[:k - 1]:
            s = s + TOKENS[t]
        return lossless(s) or tiles(s)

    body.__name__ = "P3_tok_%d_%d" % (first, k)
    return body


for _first in range(len(TOKENS)):
    for _k, _tier, _T in ((3, "quick", 600), (4, "thorough", 6000)):
        ob("C09", "P3.tok.k%d.t%02d" % (_k, _first), {"t%d" % j: R(0, len(TOKENS) - 1) for j in range(1, _k)}, enum=True, tier=_tier, T=_T, funcs=PFUNCS,
           bound="EVERY sequence of %d lexical tokens starting with %r, the others drawn from %r (%d sequences, solver-enumerated): concatenation identity of cst_scanner and cst_parse, line tiling"
                 % (_k, TOKENS[_first], TOKENS, len(TOKENS) ** (_k - 1)))(_p3(_first, _k))


# P5: what can FOLLOW a definition header: header x two line-tokens x tail (comments, blank lines, docstrings, decorators, nested definitions, continuations) ------------
HEADERS = ("def f(a):\n", "def f(\n    a,\n    b=1,\n):\n", "class K(object):\n", "async def f(a):\n", "@dec\ndef f(a):\n", "@dec(1)\nclass K:\n", "if a:\n", "    def m(self):\n")
LINES = ("    # c\n", "\n", '    """d"""\n', "    x = 1\n", "    pass  # t\n", "    @d\n", "    def g(): pass\n", "# top\n", "    '''m\n    n'''\n", "    y = \\\n        2\n", "        # deep\n",
         "    z = (1,\n         2)\n")
TAILS9 = ("", "y = 2\n", "    return a", "\n\n")


def after_header(h, l0, l1, t):
    s = HEADERS[h] + LINES[l0] + LINES[l1] + TAILS9[t]
    return lossless(s) or tiles(s)


for _h in range(len(HEADERS)):
    ob("C09", "P5.after_header.h%d" % _h, {"h": R(_h, _h), "l0": R(0, len(LINES) - 1), "l1": R(0, len(LINES) - 1), "t": R(0, len(TAILS9) - 1)}, enum=True, T=600, funcs=PFUNCS,
       bound="the header %r followed by ANY two of the lines %r and ANY of the tails %r (solver-enumerated): concatenation identity of cst_scanner and cst_parse, line tiling"
             % (HEADERS[_h], LINES, TAILS9))(after_header)
