"""C14 - every parser returns a well-formed interface description (DESIGN.md section 6, C14)."""
import os
import random

from chx.domain import wf
from chx.ob import BOOL, CP, PR, R, U, ob
from harness.shims import ADHOC_SHIMS, ADHOC_SHIMS_DOC
from harness.skeletons import EXTRA_SKELETONS, SKELETONS, hole_is_name

SEED = int(os.environ.get("VERIF_SEED", "0") or 0)
FUNCS = ["cdd.shared.docstring_parsers.parse_docstring", "cdd.shared.docstring_parsers._scan_phase_rest",
         "cdd.shared.docstring_parsers._scan_phase_numpydoc_and_google", "cdd.shared.docstring_parsers._parse_phase_rest",
         "cdd.shared.docstring_parsers._parse_phase_numpydoc_and_google", "cdd.shared.docstring_parsers._set_name_and_type",
         "cdd.shared.docstring_parsers._infer_default", "cdd.docstring.utils.emit_utils.interpolate_defaults",
         "cdd.shared.defaults_utils.extract_default", "cdd.docstring.utils.parse_utils.parse_adhoc_doc_for_typ"]


def S(cs):
    s = ""
    for c in cs:
        s = s + chr(c)
    return s


def parse_wf(doc):
    """whatever parse_docstring RETURNS is well formed; raising = rejecting the input"""
    import cdd.docstring.utils.parse_utils as pu
    from cdd.shared.docstring_parsers import parse_docstring
    from chx.shim import shim

    with shim(pu, **ADHOC_SHIMS):
        try:
            ir = parse_docstring(doc)
        except Exception:
            return ""
    return wf(ir, source_text=doc)


def _raw(n):
    def body(*cs):
        return parse_wf(S(cs))

    body.__name__ = "raw_n%d" % n
    return body


for _n, _tier, _T in ((1, "quick", 60), (2, "quick", 120), (3, "quick", 300), (4, "thorough", 1800)):
    ob("C14", "raw.n%d" % _n, {"c%d" % i: CP for i in range(_n)}, tier=_tier, T=_T, funcs=FUNCS, assumes=[ADHOC_SHIMS_DOC],
       bound="every docstring of exactly %d code points" % _n)(_raw(_n))


def _pert(doc, pos, mode):
    def body(c):
        ch = chr(c)
        d = doc[:pos] + ch + (doc[pos:] if mode == "ins" else doc[pos + 1:])
        return parse_wf(d)

    body.__name__ = "skel_%s_%d" % (mode, pos)
    return body


_ALL = []
for _style, _doc in list(SKELETONS.items()) + list(EXTRA_SKELETONS.items()):
    for _pos in range(len(_doc) + 1):
        for _mode in ("ins", "sub"):
            if _mode == "sub" and _pos >= len(_doc):
                continue
            _ALL.append((_style, _pos, _mode, _doc))
_QUICK = set(random.Random(SEED).sample(range(len(_ALL)), 48))
# the unperturbed-shape representatives of the extra skeletons are always in the quick tier (one hole at the very end)
_QUICK |= {i for i, (st, pos, mode, doc) in enumerate(_ALL) if st in EXTRA_SKELETONS and mode == "ins" and pos == len(doc)}
for _i, (_style, _pos, _mode, _doc) in enumerate(_ALL):
    _q = _i in _QUICK
    if not _q and _mode != "ins":
        continue
    _np = hole_is_name(_doc, _pos, _mode)
    ob("C14", "skel.%s.%s%03d" % (_style, _mode, _pos), {"c": PR if _np else CP}, tier="quick" if _q else "thorough", T=150, funcs=FUNCS,
       assumes=[ADHOC_SHIMS_DOC],
       bound="%s skeleton (%d chars) with %s %s at offset %d" % (
           _style, len(_doc), "any printable ASCII character (name position: dict-key insertion realises, so the range is finite and solver-enumerated)" if _np else "ANY code point",
           "inserted" if _mode == "ins" else "substituted", _pos))(_pert(_doc, _pos, _mode))
