"""C14 - every parser returns a well-formed interface description (DESIGN.md section 6, C14)."""
import os
import random

from chx.domain import wf
from chx.ob import BOOL, CP, PR, R, U, ob
from harness.shims import ADHOC_SHIMS, ADHOC_SHIMS_DOC
from harness.skeletons import EXTRA_SKELETONS, SKELETONS, hole_is_name

SEED = int(os.environ.get("VERIF_SEED", "0") or 0)
FUNCS = ["cdd.shared.docstring_parsers.parse_docstring", "cdd.shared.docstring_parsers._scan_phase_rest",
         "cdd.shared.docstring_parsers._scan_phase_numpydoc_and_google", "cdd.shared.docstring_parsers._parse_phase_rest",
         "cdd.shared.docstring_parsers._parse_phase_numpydoc_and_google", "cdd.shared.docstring_parsers._set_name_and_type",
         "cdd.shared.docstring_parsers._infer_default", "cdd.docstring.utils.emit_utils.interpolate_defaults",
         "cdd.shared.defaults_utils.extract_default", "cdd.docstring.utils.parse_utils.parse_adhoc_doc_for_typ"]


def S(cs):
    s = ""
    for c in cs:
        s = s + chr(c)
    return s


def parse_wf(doc):
    """whatever parse_docstring RETURNS is well formed; raising = rejecting the input"""
    import cdd.docstring.utils.parse_utils as pu
    from cdd.shared.docstring_parsers import parse_docstring
    from chx.shim import shim

    with shim(pu, **ADHOC_SHIMS):
        try:
            ir = parse_docstring(doc)
        except Exception:
            return ""
    return wf(ir, source_text=doc)


def _raw(n):
    def body(*cs):
        return parse_wf(S(cs))

    body.__name__ = "raw_n%d" % n
    return body


for _n, _tier, _T in ((1, "quick", 60), (2, "quick", 120), (3, "quick", 300), (4, "thorough", 1800)):
    ob("C14", "raw.n%d" % _n, {"c%d" % i: CP for i in range(_n)}, tier=_tier, T=_T, funcs=FUNCS, assumes=[ADHOC_SHIMS_DOC],
       bound="every docstring of exactly %d code points" % _n)(_raw(_n))


def _pert(doc, pos, mode):
    def body(c):
        ch = chr(c)
        d = doc[:pos] + ch + (doc[pos:] if mode == "ins" else doc[pos + 1:])
        return parse_wf(d)

    body.__name__ = "skel_%s_%d" % (mode, pos)
    return body


_ALL = []
for _style, _doc in list(SKELETONS.items()) + list(EXTRA_SKELETONS.items()):
    for _pos in range(len(_doc) + 1):
        for _mode in ("ins", "sub"):
            if _mode == "sub" and _pos >= len(_doc):
                continue
            _ALL.append((_style, _pos, _mode, _doc))
_SHORT = [i for i, (st, pos, mode, doc) in enumerate(_ALL) if len(doc) <= 110]  # quick tier: skeletons of <= 110 characters (a symbolic hole in a longer text costs > 300 CPU-seconds)
_QUICK = set(random.Random(SEED).sample(_SHORT, 48))
# the unperturbed-shape representatives of the extra skeletons are always in the quick tier (one hole at the very end)
_QUICK |= {i for i, (st, pos, mode, doc) in enumerate(_ALL) if st in EXTRA_SKELETONS and mode == "ins" and pos == len(doc) and len(doc) <= 110}
for _i, (_style, _pos, _mode, _doc) in enumerate(_ALL):
    _q = _i in _QUICK
    if not _q and _mode != "ins":
        continue
    _np = hole_is_name(_doc, _pos, _mode)
    ob("C14", "skel.%s.%s%03d" % (_style, _mode, _pos), {"c": PR if _np else CP}, tier="quick" if _q else "thorough", T=300 if len(_doc) <= 110 else 900, funcs=FUNCS,
       assumes=[ADHOC_SHIMS_DOC],
       bound="%s skeleton (%d chars) with %s %s at offset %d" % (
           _style, len(_doc), "any printable ASCII character (name position: dict-key insertion realises, so the range is finite and solver-enumerated)" if _np else "ANY code point",
           "inserted" if _mode == "ins" else "substituted", _pos))(_pert(_doc, _pos, _mode))


# ---- the AST-level parsers: function / class / argparse / pydantic (C02 shapes) and SQLAlchemy columns -------------------------------
from collections import OrderedDict  # noqa: E402

from harness.formats import FORMAT_FUNCS, hop  # noqa: E402


def _ast_parser(fmt):
    def body(i, b, c0, nodefault, withret):
        s = "x" + chr(c0)
        ps = [("a", {"typ": "int", "doc": "first arg"} if nodefault else {"typ": "int", "doc": "first arg", "default": i}),
              ("b", {"typ": "Optional[bool]", "doc": "second arg", "default": b}),
              ("c", {"typ": "str", "doc": "third " + s, "default": s})]
        ir = {"name": "C", "doc": "Header line.", "type": "static", "params": OrderedDict(ps),
              "returns": OrderedDict((("return_type", {"typ": "int", "doc": "the result", "default": 5}),)) if withret else None}
        try:
            back = hop(fmt, ir)
        except Exception:
            return ""
        d = wf(back)
        if d:
            return d
        names = list(back["params"])
        for want in ("a", "b", "c"):
            n = 0
            for x in names:
                if x == want:
                    n += 1
            if n != 1:
                return "signature parameter %s appears %d times in the result" % (want, n)
        return ""

    return body


for _fmt in ("class", "pydantic", "function", "argparse"):
    ob("C14", "ast.%s" % _fmt, {"i": R(0, 1), "b": BOOL, "c0": PR, "nodefault": BOOL, "withret": BOOL}, pre="c0 != 47", T=400,
       funcs=FORMAT_FUNCS[_fmt], assumes=[ADHOC_SHIMS_DOC],
       bound="what the %s parser returns for an emitted interface with int / Optional[bool] / str parameters (str default and description tail = 'x' + ANY printable "
             "character), with/without a default on the first parameter and a return entry: well-formed, every signature parameter exactly once" % _fmt)(_ast_parser(_fmt))


COLKINDS = ("Column('%s', Integer, comment='c')", "Column('%s', Integer, comment='c', primary_key=True)",
            "Column('%s', Integer, ForeignKey('parent.id'), comment='c')", "Column('%s', Integer, ForeignKey('parent.id'), comment='c', primary_key=True)",
            "Column('%s', String, comment='c', default='d', nullable=False)", "Column('%s', Float, nullable=True)",
            "Column('%s', Enum('np', 'tf', name='e'), comment='c')", "Column('%s', JSON, doc='c', server_default='x')")


def sql_parser(variant, k0, k1, documented):
    import ast as _ast

    import cdd.sqlalchemy.emit  # noqa: F401  (import order)
    import cdd.sqlalchemy.parse as P

    def col(k, name):
        t = COLKINDS[0]
        for j in range(1, len(COLKINDS)):
            if k == j:
                t = COLKINDS[j]
        return t % name

    doc = "Header.\n\n:cvar id: the id\n:cvar other: the other" if documented else "Header."
    if variant == 0:
        src = "config_tbl = Table('config_tbl', metadata, %s, %s, comment=%r)" % (col(k0, "id"), col(k1, "other"), doc)
        node = _ast.parse(src).body[0]
        parse = P.sqlalchemy_table
    else:
        c0, c1 = col(k0, "id").replace("Column('id', ", "Column("), col(k1, "other").replace("Column('other', ", "Column(")
        src = "class Config(Base):\n    '''\n    %s\n    '''\n    __tablename__ = 'config_tbl'\n    id = %s\n    other = %s\n" % (doc.replace("\n", "\n    "), c0, c1)
        node = _ast.parse(src).body[0]
        parse = P.sqlalchemy
    try:
        back = parse(node)
    except Exception:
        return ""
    if "type" not in back:
        back = dict(back, type=None)
    d = wf(back)
    if d:
        return d
    if list(back["params"]) != ["id", "other"]:
        return "columns %r came back as parameters %r" % (["id", "other"], list(back["params"]))
    return ""


for _v, _vn in ((0, "table"), (1, "class")):
    ob("C14", "ast.sqlalchemy.%s" % _vn, {"variant": R(_v, _v), "k0": R(0, len(COLKINDS) - 1), "k1": R(0, len(COLKINDS) - 1), "documented": BOOL}, enum=True, T=600, tpath=60,
       funcs=["cdd.sqlalchemy.parse.sqlalchemy", "cdd.sqlalchemy.parse.sqlalchemy_table", "cdd.sqlalchemy.utils.parse_utils.column_call_to_param",
              "cdd.sqlalchemy.utils.emit_utils.sqlalchemy_class_to_table", "cdd.shared.parse.utils.parser_utils.ir_merge"],
       bound="SQLAlchemy %s with two columns, each of ANY of %d kinds (plain, PK, FK, PK+FK, default+not-null, nullable, Enum, JSON+server_default), documented in the "
             "docstring or not (solver-enumerated): the returned interface is well-formed (only typ/doc/default/x_typ keys) and has exactly the two columns" % (_vn, len(COLKINDS)))(sql_parser)


def sig_params_once(kind, documented, nargs, first, stale=0):
    """every parameter of the parsed signature appears exactly once, also when the caller names the function type / merges an inner function"""
    import ast as _ast

    import cdd.class_.parse
    import cdd.docstring.utils.parse_utils as pu
    import cdd.function.parse
    from chx.shim import shim

    names = [("name", "self", "cls")[first]] + ["p%d" % i for i in range(nargs)]
    sig = ", ".join(names[:1] + ["%s=%d" % (n, 3) for n in names[1:]])
    docnames = [n for n in names if n not in ("self", "cls")]
    if stale == 1 and docnames:
        docnames = docnames[:-1] + [docnames[-1] + "x"]  # a stale / misspelt entry: as many documented names as the signature has, one of them wrong
    elif stale == 2 and docnames:
        docnames = ["zz"] + docnames[1:]  # the FIRST documented name is stale
    elif stale == 3:
        docnames = docnames + ["extra"]  # one documented name too many
    doc = "Doc.\n\n" + "".join(":param %s: the %s\n" % (n, n) for n in docnames) if documented else "Doc."
    if kind == 0:
        src = "def create(%s):\n    \'\'\'\n    %s\n    \'\'\'\n    return 1\n" % (sig, doc.replace("\n", "\n    "))
        call = lambda: cdd.function.parse.function(_ast.parse(src).body[0])
    elif kind == 1:
        src = "def create(%s):\n    \'\'\'\n    %s\n    \'\'\'\n    return 1\n" % (sig, doc.replace("\n", "\n    "))
        call = lambda: cdd.function.parse.function(_ast.parse(src).body[0], function_type=("static", "self", "cls")[first])
    else:
        deco = "    @staticmethod\n" if first == 0 else ("    @classmethod\n" if first == 2 else "")
        src = ("class K(object):\n    \'\'\'\n    K doc.\n    \'\'\'\n    z: int = 1\n\n" + deco + "    def create(%s):\n        \'\'\'\n        %s\n        \'\'\'\n        return 1\n"
               % (sig, doc.replace("\n", "\n        ")))
        call = lambda: cdd.class_.parse.class_(_ast.parse(src).body[0], merge_inner_function="create")
    with shim(pu, **ADHOC_SHIMS):
        try:
            ir = call()
        except Exception:
            return ""
    d = wf(ir)
    if d:
        return d
    got = list(ir["params"])
    for n in names:
        if n == "self" or n == "cls":
            continue
        c = 0
        for g in got:
            if g == n:
                c += 1
        if c != 1:
            return "signature parameter %r appears %d time(s) in params %r" % (n, c, got)
    return ""


ob("C14", "ast.signature_once", {"kind": R(0, 2), "documented": BOOL, "nargs": R(0, 3), "first": R(0, 2), "stale": R(0, 3)}, enum=True, T=600, tpath=60,
   funcs=["cdd.function.parse.function", "cdd.class_.parse.class_", "cdd.class_.parse._merge_inner_function", "cdd.shared.parse.utils.parser_utils.ir_merge"],
   assumes=[ADHOC_SHIMS_DOC],
   bound="function(def), function(def, function_type=...), class_(cls, merge_inner_function='create') on a def whose first argument is a plain name / self / cls, "
         "0..3 further defaulted parameters, documented or not, the documented names exact / last one misspelt / first one stale / one too many (solver-enumerated): well-formed result, every signature parameter exactly once")(sig_params_once)


# the JSON-schema parser: a schema written by hand (not by the emitter) with ANY subset of keywords per property ----------------------------------
JTYPES14 = ("string", "integer", "number", "boolean", "object", "array")


def json_schema_parser(t0, t1, has_desc, has_default, req_mask, has_pattern, c0, c1):
    import cdd.json_schema.parse as P

    def jt(t):
        v = JTYPES14[0]
        for k in range(1, len(JTYPES14)):
            if t == k:
                v = JTYPES14[k]
        return v

    p0 = {"type": jt(t0)}
    p1 = {"type": jt(t1)}
    if has_desc:
        p0["description"] = "d" + chr(c0) + chr(c1)
    if has_default:
        p1["default"] = {"string": "s" + chr(c0), "integer": 3, "number": 0.5, "boolean": False, "object": {}, "array": []}[p1["type"]]
    if has_pattern and p0["type"] == "string":
        p0["pattern"] = "np|tf"
    schema = {"$id": "https://example.test/x.schema.json", "$schema": "https://json-schema.org/draft/2020-12/schema", "description": "Top " + chr(c1) + ".",
              "type": "object", "properties": {"alpha": p0, "beta": p1}, "required": [n for i, n in enumerate(("alpha", "beta")) if req_mask & (1 << i)]}
    try:
        back = P.json_schema(schema)
    except Exception:
        return ""
    if "type" not in back:
        back = dict(back, type=None)
    d = wf(back)
    if d:
        return d
    if list(back["params"]) != ["alpha", "beta"]:
        return "properties ['alpha', 'beta'] came back as parameters %r" % (list(back["params"]),)
    return ""


ob("C14", "ast.json_schema", {"t0": R(0, 5), "t1": R(0, 5), "has_desc": BOOL, "has_default": BOOL, "req_mask": R(0, 3), "has_pattern": BOOL, "c0": PR, "c1": PR}, T=600, tpath=60,
   funcs=["cdd.json_schema.parse.json_schema", "cdd.json_schema.utils.parse_utils.json_schema_property_to_param"],
   bound="hand-written JSON-schema with two properties of ANY of the six JSON types, description (2 symbolic printable characters) present or not, default present or not, "
         "pattern present or not, ANY subset required: the returned interface is well-formed and has exactly the two properties")(json_schema_parser)


JT_ANY = ("string", "integer", "number", "boolean", "object", "array", "null")


def json_schema_anyof(n, a0, a1, a2, req, fmt_mask):
    """a property given as anyOf of 1..3 alternatives (several of them may be strings with different formats)"""
    import cdd.json_schema.parse as P

    def jt(t):
        v = JT_ANY[0]
        for k in range(1, len(JT_ANY)):
            if t == k:
                v = JT_ANY[k]
        return v

    alts = []
    for i, a in enumerate((a0, a1, a2)[:n]):
        alt = {"type": jt(a)}
        if alt["type"] == "string" and fmt_mask & (1 << i):
            alt["format"] = ("date", "date-time", "email")[i]
        alts.append(alt)
    schema = {"$id": "https://example.test/y.schema.json", "description": "Top.", "type": "object",
              "properties": {"alpha": {"anyOf": alts, "description": "the alpha"}, "beta": {"type": "integer"}}, "required": ["alpha"] if req else []}
    try:
        back = P.json_schema(schema)
    except Exception:
        return ""
    if "type" not in back:
        back = dict(back, type=None)
    d = wf(back)
    if d:
        return d
    if list(back["params"]) != ["alpha", "beta"]:
        return "properties ['alpha', 'beta'] came back as parameters %r" % (list(back["params"]),)
    return ""


for _n in (1, 2, 3):
    ob("C14", "ast.json_schema.anyof.n%d" % _n, {"n": R(_n, _n), "a0": R(0, 6), "a1": R(0, 6) if _n > 1 else R(0, 0), "a2": R(0, 6) if _n > 2 else R(0, 0), "req": BOOL,
                                                  "fmt_mask": R(0, 2 ** _n - 1)}, enum=True, T=900, tpath=60, tier="quick" if _n < 3 else "thorough",
       funcs=["cdd.json_schema.parse.json_schema", "cdd.json_schema.utils.parse_utils.json_schema_property_to_param"],
       bound="hand-written JSON-schema whose first property is an anyOf of %d alternative(s), each of ANY of the seven JSON types (repeats allowed), string alternatives with or without a "
             "format, required or not (solver-enumerated): the returned interface is well-formed - in particular the type parses as a Python expression" % _n)(json_schema_anyof)
