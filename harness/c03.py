"""C03 - any chain of format conversions preserves the interface (AST level; DESIGN.md section 6, C03)."""
from collections import OrderedDict

from chx.domain import ir_equiv
from chx.ob import BOOL, CP, PR, R, U, known_active, ob
from harness.formats import FORMAT_FUNCS, FORMATS, hop
from harness.shims import ADHOC_SHIMS_DOC

ASSUMPTIONS = ["AST level hops (see C02); the SEQUENCE of formats is a tuple of solver integers, so the solver enumerates every sequence of the stated length",
               "compared: parameter names, order, types, defaults (the property does not speak of descriptions for chains); an absent default and a None default are the same (None/absent convention named in the property's anchors)"]
ALLF = sorted({f for fs in FORMAT_FUNCS.values() for f in fs})


def S(cs):
    s = ""
    for c in cs:
        s = s + chr(c)
    return s


def fmt_of(h):
    f = FORMATS[0]
    for k in range(1, len(FORMATS)):
        if h == k:
            f = FORMATS[k]
    return f


def shape(kind, i, c0, c1):
    """common representable domain: scalar, Optional[scalar], Literal[str,..]; every parameter has a default (signature-legal)"""
    if kind == 0:
        ps = [("a", {"typ": "int", "doc": "first arg", "default": i}), ("b", {"typ": "str", "doc": "second arg", "default": "x y"})]
    elif kind == 1:
        ps = [("a", {"typ": "float", "doc": "first arg", "default": 0.5}), ("b", {"typ": "bool", "doc": "second arg", "default": i > 0})]
    elif kind == 2:
        ps = [("a", {"typ": "Optional[int]", "doc": "first arg", "default": None}), ("b", {"typ": "int", "doc": "second arg", "default": i})]
    elif kind == 3:
        ps = [("a", {"typ": "Literal['np', 'tf']", "doc": "first arg", "default": "np"}), ("b", {"typ": "int", "doc": "second arg", "default": i})]
    else:
        ps = [("a", {"typ": "Optional[bool]", "doc": "first arg", "default": i > 0}), ("b", {"typ": "Optional[float]", "doc": "second arg", "default": 0.0 if i < 0 else 2.5}),
              ("c", {"typ": "Optional[str]", "doc": "third arg", "default": "t" if i == 0 else "s"})]
    return {"name": "C", "doc": "Header line.", "type": "static", "params": OrderedDict(ps), "returns": None}


def chain(hs, ir0):
    ir = ir0
    for n, h in enumerate(hs):
        f = fmt_of(h)
        try:
            ir = hop(f, ir)
        except Exception as e:
            return "hop %d (%s) raised %s: %s" % (n + 1, f, type(e).__name__, e)
        d = ir_equiv(ir0, ir, types=True, defaults=True, docs=False, header=False, returns=False, none_is_absent=True)
        if d:
            return "after hop %d (%s): %s" % (n + 1, " -> ".join(fmt_of(x) for x in hs[:n + 1]), d)
    return ""


def _chain(k, kind):
    def body(i, c0, c1, *hs):
        return chain(hs, shape(kind, i, c0, c1))

    body.__name__ = "chain_k%d_s%d" % (k, kind)
    return body


KINDS = {0: "a:int=i (i in -3..3), b:str='x y'", 1: "a:float=0.5, b:bool", 2: "a:Optional[int]=None, b:int=i", 3: "a:Literal['np','tf']='np', b:int=i",
         4: "a:Optional[bool]=True/False, b:Optional[float]=0.0/2.5, c:Optional[str]='t'/'s'"}
for _k, _tier, _T in ((2, "quick", 400), (3, "thorough", 3000)):
    for _kind in KINDS:
        _args = dict({"i": R(-3, 3), "c0": R(97, 97), "c1": R(97, 97)}, **{"h%d" % j: R(0, len(FORMATS) - 1) for j in range(_k)})
        ob("C03", "chain.k%d.s%d" % (_k, _kind), _args, tier=_tier, T=_T, tpath=120, funcs=ALLF, assumes=[ADHOC_SHIMS_DOC],
           bound="EVERY sequence of %d hops over %r (%d sequences, solver-enumerated) starting from %s" % (_k, FORMATS, len(FORMATS) ** _k, KINDS[_kind]))(_chain(_k, _kind))


# a parameter WITHOUT default: function shows it as '=None' and the next parser widens the type (finding F14) ----------------
def nodefault_chain(h0, h1):
    ir0 = {"name": "C", "doc": "Header line.", "type": "static",
           "params": OrderedDict((("a", {"typ": "int", "doc": "first arg"}), ("b", {"typ": "int", "doc": "second arg", "default": 2}))), "returns": None}
    ir = ir0
    for n, h in enumerate((h0, h1)):
        f = fmt_of(h)
        try:
            ir = hop(f, ir)
        except Exception as e:
            return "hop %d (%s) raised %s: %s" % (n + 1, f, type(e).__name__, e)
    if list(ir["params"]) != ["a", "b"]:
        return "names/order changed"
    if ir["params"]["a"].get("typ") != "int":
        return "type of the parameter without default changed to %r after %s -> %s" % (ir["params"]["a"].get("typ"), fmt_of(h0), fmt_of(h1))
    return ""


ob("C03", "F14.nodefault", {"h0": R(0, 4), "h1": R(0, 4)}, tier="witness", T=300, twin=False, funcs=ALLF,
   bound="witness obligation of finding F14 (not expected to hold)")(nodefault_chain)
