"""C03 - any chain of format conversions preserves the interface (AST level; DESIGN.md section 6, C03)."""
from collections import OrderedDict

from chx.domain import ir_equiv
from chx.ob import BOOL, CP, PR, R, U, known_active, ob
from harness.formats import FORMAT_FUNCS, FORMATS, hop
from harness.shims import ADHOC_SHIMS_DOC

ASSUMPTIONS = ["AST level hops (see C02); the SEQUENCE of formats is a tuple of solver integers, so the solver enumerates every sequence of the stated length; every argument is made concrete by a fork (chx.shim.fix_int) and the hops then run untraced on the real emitters and parsers",
               "compared: parameter names, order, types, defaults (the property does not speak of descriptions for chains); an absent default and a None default are the same (None/absent convention named in the property's anchors)"]
ALLF = sorted({f for fs in FORMAT_FUNCS.values() for f in fs})


def S(cs):
    s = ""
    for c in cs:
        s = s + chr(c)
    return s


LONG_TEXT = "By continuing you confirm that you have read and accept the current terms of use before any upload"


def fmt_of(h):
    f = FORMATS[0]
    for k in range(1, len(FORMATS)):
        if h == k:
            f = FORMATS[k]
    return f


def shape(kind, i, c0, c1):
    """common representable domain: scalar, Optional[scalar], Literal[str,..]; every parameter has a default (signature-legal)"""
    if kind == 0:
        ps = [("a", {"typ": "int", "doc": "first arg", "default": i}), ("b", {"typ": "str", "doc": "second arg", "default": "x y"})]
    elif kind == 1:
        ps = [("a", {"typ": "float", "doc": "first arg", "default": 0.5}), ("b", {"typ": "bool", "doc": "second arg", "default": i > 0})]
    elif kind == 2:
        ps = [("a", {"typ": "Optional[int]", "doc": "first arg", "default": None}), ("b", {"typ": "int", "doc": "second arg", "default": i})]
    elif kind == 3:
        ps = [("a", {"typ": "Literal['np', 'tf']", "doc": "first arg", "default": "np"}), ("b", {"typ": "int", "doc": "second arg", "default": i})]
    elif kind == 5:
        ps = [("a", {"typ": "float", "doc": "first arg", "default": 1e20}), ("b", {"typ": "float", "doc": "second arg", "default": -2.5e-07}),
              ("c", {"typ": "int", "doc": "third arg", "default": 10 ** 18 + i})]
    elif kind == 6:
        ps = [("a", {"typ": "Literal['x', 'y', 'z']", "doc": "first arg", "default": "y" if i > 0 else "z"}), ("b", {"typ": "Optional[str]", "doc": "second arg", "default": None}),
              ("c", {"typ": "str", "doc": "third arg", "default": "a-b_c"})]
    elif kind == 7:
        ps = [("a", {"typ": "int", "doc": "first arg", "default": i}), ("b", {"typ": "float", "doc": "second arg", "default": -0.5}),
              ("c", {"typ": "bool", "doc": "third arg", "default": False}), ("d", {"typ": "str", "doc": "fourth arg", "default": ""})]
    elif kind == 9:
        ps = [("a", {"typ": "str", "doc": "first arg", "default": LONG_TEXT if i > 0 else LONG_TEXT[:40 + 8 * (i + 3)]}), ("b", {"typ": "complex", "doc": "second arg", "default": 1j}),
              ("c", {"typ": "int", "doc": "third arg with a description that is itself long enough to be wrapped by the emitter at one hundred columns", "default": i})]
    elif kind == 8:
        ps = [("a", {"typ": "Optional[Literal['x', 'y']]", "doc": "first arg", "default": None}), ("b", {"typ": "Optional[int]", "doc": "second arg", "default": i})]
    else:
        ps = [("a", {"typ": "Optional[bool]", "doc": "first arg", "default": i > 0}), ("b", {"typ": "Optional[float]", "doc": "second arg", "default": 0.0 if i < 0 else 2.5}),
              ("c", {"typ": "Optional[str]", "doc": "third arg", "default": "t" if i == 0 else "s"})]
    return {"name": "C", "doc": "Header line.", "type": "static", "params": OrderedDict(ps), "returns": None}


def chain(hs, ir0, edd=False, keep=False, wrap=False):
    ir = ir0
    for n, h in enumerate(hs):
        f = fmt_of(h)
        try:
            ir = hop(f, ir, emit_default_doc=edd, keep_prose=keep, word_wrap=wrap)
        except Exception as e:
            return "hop %d (%s) raised %s: %s" % (n + 1, f, type(e).__name__, e)
        d = ir_equiv(ir0, ir, types=True, defaults=True, docs=False, header=False, returns=False, none_is_absent=True)
        if d:
            return "after hop %d (%s%s): %s" % (n + 1, " -> ".join(fmt_of(x) for x in hs[:n + 1]), ", emit_default_doc=True" if edd else "", d)
    return ""


def _chain(k, kind, edd=False, first=None, keep=False, wrap=False):
    def body(i, c0, c1, *hs):
        from chx.shim import fix_int, untraced

        i, c0, c1 = fix_int(i, -3, 3), fix_int(c0, 97, 97), fix_int(c1, 97, 97)
        hs = tuple(fix_int(h, 0, len(FORMATS) - 1) for h in hs)
        return untraced(lambda: chain(hs if first is None else (first,) + tuple(hs), shape(kind, i, c0, c1), edd, keep, wrap))

    body.__name__ = "chain_k%d_s%d" % (k, kind)
    return body


KINDS = {0: "a:int=i (i in -3..3), b:str='x y'", 1: "a:float=0.5, b:bool", 2: "a:Optional[int]=None, b:int=i", 3: "a:Literal['np','tf']='np', b:int=i",
         4: "a:Optional[bool]=True/False, b:Optional[float]=0.0/2.5, c:Optional[str]='t'/'s'", 5: "a:float=1e20, b:float=-2.5e-07, c:int=10**18+i",
         6: "a:Literal['x','y','z']='y'/'z', b:Optional[str]=None, c:str='a-b_c'", 7: "a:int=i, b:float=-0.5, c:bool=False, d:str=''",
         8: "a:Optional[Literal['x','y']]=None, b:Optional[int]=i",
         }
KINDS_WRAP = dict(KINDS)
KINDS_WRAP[9] = "a:str=<sentence of 40..99 characters>, b:complex=1j, c:int=i with a description longer than the wrap column"
EDD_DOC = "the code emitters also write the default into the prose (emit_default_doc=True) on every hop"
for _k, _tier, _T in ((2, "quick", 400), (3, "quick", 900)):
    for _kind in KINDS:
        _args = dict({"i": R(-3, 3), "c0": R(97, 97), "c1": R(97, 97)}, **{"h%d" % j: R(0, len(FORMATS) - 1) for j in range(_k)})
        ob("C03", "chain.k%d.s%d" % (_k, _kind), _args, tier=_tier, T=_T, tpath=120, funcs=ALLF, assumes=[ADHOC_SHIMS_DOC],
           bound="EVERY sequence of %d hops over %r (%d sequences, solver-enumerated) starting from %s" % (_k, FORMATS, len(FORMATS) ** _k, KINDS[_kind]))(_chain(_k, _kind))
        ob("C03", "chain.k%d.edd.s%d" % (_k, _kind), _args, tier="quick" if _k == 2 else "thorough", T=_T, tpath=120, funcs=ALLF, assumes=[ADHOC_SHIMS_DOC, EDD_DOC],
           bound="EVERY sequence of %d hops over %r starting from %s; %s" % (_k, FORMATS, KINDS[_kind], EDD_DOC))(_chain(_k, _kind, True))
KEEP_DOC = "the docstring hop parses with the parser's own default emit_default_doc=True: the 'Defaults to' prose stays in the description and the default is read from it"
for _kind in KINDS:
    _args = dict({"i": R(-3, 3), "c0": R(97, 97), "c1": R(97, 97)}, **{"h%d" % j: R(0, len(FORMATS) - 1) for j in range(2)})
    ob("C03", "chain.k2.keep.s%d" % _kind, _args, pre="h0 == 4 or h1 == 4", tier="quick", T=1200, tpath=120, funcs=ALLF, assumes=[ADHOC_SHIMS_DOC, KEEP_DOC],
       bound="EVERY sequence of 2 hops over %r that visits the docstring format, starting from %s; %s" % (FORMATS, KINDS[_kind], KEEP_DOC))(_chain(2, _kind, False, None, True))
KINDS_ALL = KINDS
WRAP_DOC = "word_wrap=True on every hop (the emitters' own default): descriptions and 'Defaults to' prose are wrapped at 100 columns"
for _kind in KINDS_WRAP:
    for _keep in (False, True):
        if _kind == 9 and not _keep:
            continue  # long str / complex defaults with the prose stripped: known findings F48/F49 (witness obligation under C01)
        _args = dict({"i": R(-3, 3), "c0": R(97, 97), "c1": R(97, 97)}, **{"h%d" % j: R(0, len(FORMATS) - 1) for j in range(2)})
        ob("C03", "chain.k2.wrap%s.s%d" % (".keep" if _keep else "", _kind), _args, tier="quick" if _kind in (0, 5, 9) else "thorough", T=900, tpath=120, funcs=ALLF,
           assumes=[ADHOC_SHIMS_DOC, WRAP_DOC] + ([KEEP_DOC] if _keep else []),
           bound="EVERY sequence of 2 hops over %r starting from %s; %s%s" % (FORMATS, KINDS_WRAP[_kind], WRAP_DOC, ("; " + KEEP_DOC) if _keep else ""))(_chain(2, _kind, False, None, _keep, True))
# length 4 (every shape) and 5: sharded by the first hop (5 shards x 125 / 625 sequences)
for _kind in KINDS:
    for _first in range(len(FORMATS)):
        _args = dict({"i": R(-1, 1), "c0": R(97, 97), "c1": R(97, 97)}, **{"h%d" % j: R(0, len(FORMATS) - 1) for j in range(3)})
        ob("C03", "chain.k4.s%d.first_%s" % (_kind, FORMATS[_first]), _args, tier="quick" if _kind in (0, 4, 5) and _first in (2, 4) else "thorough", T=1500, tpath=120, funcs=ALLF,
           assumes=[ADHOC_SHIMS_DOC],
           bound="EVERY sequence of 4 hops starting with %s (125 sequences, solver-enumerated) from %s" % (FORMATS[_first], KINDS[_kind]))(_chain(4, _kind, False, _first))
        _args5 = dict({"i": R(0, 1), "c0": R(97, 97), "c1": R(97, 97)}, **{"h%d" % j: R(0, len(FORMATS) - 1) for j in range(4)})
        ob("C03", "chain.k5.s%d.first_%s" % (_kind, FORMATS[_first]), _args5, tier="thorough", T=6000, tpath=120, funcs=ALLF, assumes=[ADHOC_SHIMS_DOC],
           bound="EVERY sequence of 5 hops starting with %s (625 sequences, solver-enumerated) from %s" % (FORMATS[_first], KINDS[_kind]))(_chain(5, _kind, False, _first))


# a parameter WITHOUT default: function shows it as '=None' and the next parser widens the type (finding F14) ----------------
def nodefault_chain(h0, h1):
    ir0 = {"name": "C", "doc": "Header line.", "type": "static",
           "params": OrderedDict((("a", {"typ": "int", "doc": "first arg"}), ("b", {"typ": "int", "doc": "second arg", "default": 2}))), "returns": None}
    ir = ir0
    for n, h in enumerate((h0, h1)):
        f = fmt_of(h)
        try:
            ir = hop(f, ir)
        except Exception as e:
            return "hop %d (%s) raised %s: %s" % (n + 1, f, type(e).__name__, e)
    if list(ir["params"]) != ["a", "b"]:
        return "names/order changed"
    if ir["params"]["a"].get("typ") != "int":
        return "type of the parameter without default changed to %r after %s -> %s" % (ir["params"]["a"].get("typ"), fmt_of(h0), fmt_of(h1))
    return ""


ob("C03", "F14.nodefault", {"h0": R(0, 4), "h1": R(0, 4)}, tier="witness", T=300, twin=False, funcs=ALLF,
   bound="witness obligation of finding F14 (not expected to hold)")(nodefault_chain)
