"""C07 - doctrans changes only docstrings and annotations (kernels; DESIGN.md section 6, C07).

Whole-file doctrans goes through the C parser and file I/O (nothing stays symbolic); decided instead: the three string/CST
functions through which every write-back goes, on a def-header CST node whose text has symbolic "noise" (trailing comment text,
default expression text, whitespace), with concrete, consistent AST nodes.
"""
import ast

from chx.ob import BOOL, CP, PR, R, U, known_active, ob

FUNCS = ["cdd.shared.ast_cst_utils.maybe_replace_function_return_type", "cdd.shared.ast_cst_utils.maybe_replace_function_args",
         "cdd.shared.ast_cst_utils.maybe_replace_doc_str_in_function_or_class"]
ASSUMPTIONS = ["kernel level: cur_ast_node/new_node are concrete and consistent with the concrete skeleton of the header text; the symbolic part is the "
               "text doctrans must not touch (comment, default expression, spacing)"]


def S(cs):
    s = ""
    for c in cs:
        s = s + chr(c)
    return s


def _fn(src):
    return ast.parse(src).body[0]


def _hdr(value, name="f"):
    from cdd.shared.cst_utils import FunctionDefinitionStart

    return FunctionDefinitionStart(line_no_start=1, line_no_end=1, value=value, name=name)


# K1: return annotation ------------------------------------------------------------------------------------------------
def ret_added(c0, c1, c2):
    from cdd.shared.ast_cst_utils import maybe_replace_function_return_type

    tail = S((c0, c1, c2))
    if "\n" in tail or "\r" in tail:
        return ""
    before = "\ndef f(a, b=1):  #" + tail
    cst = [_hdr(before)]
    maybe_replace_function_return_type(_fn("def f(a, b=1) -> int: pass"), _fn("def f(a, b=1): pass"), 0, cst)
    after = cst[0].value
    want = "\ndef f(a, b=1) -> int:  #" + tail
    if after != want:
        return "header became %r, expected %r (text outside the return annotation must not change)" % (after, want)
    return ""


def ret_removed(c0, c1, c2):
    from cdd.shared.ast_cst_utils import maybe_replace_function_return_type

    tail = S((c0, c1, c2))
    if "\n" in tail or "\r" in tail:
        return ""
    before = "\ndef f(a, b=1) -> int:  #" + tail
    cst = [_hdr(before)]
    maybe_replace_function_return_type(_fn("def f(a, b=1): pass"), _fn("def f(a, b=1) -> int: pass"), 0, cst)
    after = cst[0].value
    want = "\ndef f(a, b=1):  #" + tail
    if after != want:
        return "header became %r, expected %r (the trailing comment must survive)" % (after, want)
    return ""


ob("C07", "K1.return_added", {"c0": CP, "c1": CP, "c2": CP}, T=200, funcs=FUNCS[:1],
   bound="header 'def f(a, b=1):  #' + ANY 3 code points of comment text (no line break); a return annotation is added")(ret_added)
ob("C07", "F28.return_removed", {"c0": CP, "c1": CP, "c2": CP}, T=200, tier="witness", twin=False, funcs=FUNCS[:1],
   bound="header 'def f(a, b=1) -> int:  #' + ANY 3 code points of comment text; the return annotation is removed")(ret_removed)


# K2: argument annotations ----------------------------------------------------------------------------------------------
RETS = ("", " -> int", " -> Tuple[()]", ' -> "A[int, G(0)]"', " -> Optional[List[str]]", " -> Callable[[int], Tuple[int, ...]]")


def args_annotated(shape, d0, d1, ret=0):
    """annotations are added to the parameters; defaults, *args, keyword-only marker, **kwargs must survive (ASTs parsed from the very header text)"""
    from cdd.shared.ast_cst_utils import maybe_replace_function_args

    dflt = S((d0, d1))
    sigs = {
        0: ("a, b=" + dflt, "a: int, b: int=" + dflt),
        1: ("a, *args", "a: int, *args"),
        2: ("a, *, k=" + dflt, "a: int, *, k: int=" + dflt),
        3: ("a, **kwargs", "a: int, **kwargs"),
        4: ("a, b=" + dflt + ", *args, c=3, **kwargs", "a: int, b: int=" + dflt + ", *args, c: int=3, **kwargs"),
    }
    cur_sig, new_sig = sigs[0]
    for k in (1, 2, 3, 4):
        if shape == k:
            cur_sig, new_sig = sigs[k]
    rt = RETS[0]
    for k in range(1, len(RETS)):
        if ret == k:
            rt = RETS[k]
    before = "\ndef f(" + cur_sig + ")" + rt + ":"
    cst = [_hdr(before)]
    cur, new = _fn("def f(%s)%s: pass" % (cur_sig, rt)), _fn("def f(%s)%s: pass" % (new_sig, rt))
    maybe_replace_function_args(new, cur, 0, cst)
    after = cst[0].value
    if not after.startswith("\ndef f(") or not after.endswith(")" + rt + ":"):
        return "text outside the argument list changed: %r" % after
    try:
        got = _fn(after.strip() + " pass")
    except SyntaxError as e:
        return "rewritten header is not valid Python: %r (%s)" % (after, e)
    erase = lambda f: ast.dump(ast.parse(ast.unparse(_strip_ann(f))))
    if erase(got) != erase(cur):
        return "the signature changed beyond annotations: %r -> %r" % (before, after)
    if ast.unparse(got.args) != ast.unparse(new.args):
        return "annotations not applied: %r" % after
    return ""


def _strip_ann(fn):
    import copy

    fn = copy.deepcopy(fn)
    for a in fn.args.args + fn.args.kwonlyargs + fn.args.posonlyargs + [x for x in (fn.args.vararg, fn.args.kwarg) if x]:
        a.annotation = None
    fn.returns = None
    return fn


ob("C07", "K2.args_annotated.ret", {"shape": R(0, 4), "d0": R(49, 49), "d1": R(48, 57), "ret": R(1, len(RETS) - 1)}, T=600, funcs=FUNCS[1:2],
   bound="as K2.args_annotated with a return annotation already in the header, one of %r (brackets and parentheses after the argument list)" % (RETS[1:],))(args_annotated)
ob("C07", "K2.args_annotated", {"shape": R(0, 4), "d0": R(49, 57), "d1": R(48, 57)}, T=400, funcs=FUNCS[1:2],
   bound="headers 'def f(a, b=DD)', 'def f(a, *args)', 'def f(a, *, k=DD)', 'def f(a, **kwargs)', 'def f(a, b=DD, *args, c=3, **kwargs)' with DD = ANY two digits "
         "(realised by ast.parse: solver-enumerated); annotations are added: the signature with annotations erased is unchanged")(args_annotated)


# K3: docstring replacement touches exactly the docstring node --------------------------------------------------------------
def doc_replaced(n_before, ind, c0, c1):
    from cdd.shared.ast_cst_utils import maybe_replace_doc_str_in_function_or_class
    from cdd.shared.cst_utils import TripleQuoted, UnchangingLine

    noise = S((c0, c1))
    if '"' in noise or "\\" in noise or "\n" in noise or "\r" in noise:
        return ""
    pad = " " * (4 * (ind + 1))
    before_nodes = [UnchangingLine(1, 1, "x = 1  #" + noise)] * n_before
    hdr = _hdr("\ndef f(a):  #" + noise)
    doc = TripleQuoted(is_double_q=True, is_docstr=True, line_no_start=3, line_no_end=5, value='\n%s"""Old doc\n%s"""' % (pad, pad))
    body = UnchangingLine(6, 6, "\n%sreturn a  #%s" % (pad, noise))
    cst = list(before_nodes) + [hdr, doc, body]
    snapshot = list(cst)
    node = _fn('def f(a):\n    """New doc\n\n    :param a: the a\n    """\n    return a\n')
    maybe_replace_doc_str_in_function_or_class(node, n_before, cst)
    if len(cst) != len(snapshot):
        return "number of CST nodes changed"
    for i in range(len(cst)):
        if i == n_before + 1:
            v = cst[i].value
            if cst[i].line_no_start != 3 or cst[i].line_no_end != 5:
                return "line range of the docstring node changed"
            if not v.startswith("\n" + pad + '"""') or not v.endswith("\n" + pad + '"""'):
                return "replacement docstring lost the original indentation/quotes: %r" % v
            if "New doc" not in v or ":param a: the a" not in v:
                return "replacement docstring lacks the new text"
        elif cst[i] is not snapshot[i]:
            return "a CST node other than the docstring was touched (index %d)" % i
    return ""


ob("C07", "K3.docstring_replaced", {"n_before": R(0, 2), "ind": R(0, 2), "c0": CP, "c1": CP}, T=300, funcs=FUNCS[2:],
   bound="0..2 preceding statements, def header, docstring at indent 4/8/12, body line - each with a trailing comment of ANY 2 code points; the docstring is replaced")(doc_replaced)


def args_nop(shape, d0, d1, c0, c1):
    """when the annotations are already as wanted the header text is left byte-identical, whatever it contains"""
    from cdd.shared.ast_cst_utils import maybe_replace_function_args

    noise = S((c0, c1))
    if "\n" in noise or "\r" in noise:
        return ""
    dflt = S((d0, d1))
    sig = ("a: int, b: int=" + dflt, "a: int, *args", "a: int, *, k: int=" + dflt, "a: int, **kwargs")[0]
    conc = "a: int, b: int=11"
    for k, (sg, cc) in enumerate((("a: int, *args", "a: int, *args"), ("a: int, *, k: int=" + dflt, "a: int, *, k: int=11"), ("a: int, **kwargs", "a: int, **kwargs"))):
        if shape == k + 1:
            sig, conc = sg, cc
    before = "\ndef f(" + sig + "):  #" + noise
    cst = [_hdr(before)]
    maybe_replace_function_args(_fn("def f(%s): pass" % conc), _fn("def f(%s): pass" % conc), 0, cst)
    if cst[0].value != before:
        return "header changed although the annotations did not: %r -> %r" % (before, cst[0].value)
    return ""


ob("C07", "K2.args_nop", {"shape": R(0, 3), "d0": R(48, 57), "d1": R(48, 57), "c0": CP, "c1": CP}, T=200, funcs=FUNCS[1:2],
   bound="annotated headers with defaults / *args / keyword-only / **kwargs and a trailing comment of ANY 2 code points; nothing to change")(args_nop)


def ret_nop(c0, c1, c2, has):
    from cdd.shared.ast_cst_utils import maybe_replace_function_return_type

    tail = S((c0, c1, c2))
    if "\n" in tail or "\r" in tail:
        return ""
    before = ("\ndef f(a, b=1) -> int:  #" if has else "\ndef f(a, b=1):  #") + tail
    src = "def f(a, b=1) -> int: pass" if has else "def f(a, b=1): pass"
    cst = [_hdr(before)]
    maybe_replace_function_return_type(_fn(src), _fn(src), 0, cst)
    if cst[0].value != before:
        return "header changed although the return annotation did not"
    return ""


ob("C07", "K1.return_nop", {"c0": CP, "c1": CP, "c2": CP, "has": BOOL}, T=200, funcs=FUNCS[:1],
   bound="header with/without '-> int' and a trailing comment of ANY 3 code points; nothing to change")(ret_nop)


# K5: the write-back of the whole command: the file is written once, after the rewrite succeeded; on error it is left byte-identical -----
import atexit  # noqa: E402
import os  # noqa: E402
import shutil  # noqa: E402
import tempfile  # noqa: E402

_ROOT = tempfile.mkdtemp(prefix="chx_c07_")
atexit.register(shutil.rmtree, _ROOT, True)
_N = [0]
CONVERTIBLE = ('# module level comment\n\n\ndef conv(a, b=5):\n    """\n    Do the thing\n\n    :param a: the a\n    :type a: ```int```\n\n    :param b: the b\n'
               '    :type b: ```int```\n\n    :return: res\n    :rtype: ```str```\n    """\n    # a comment\n    return str(a + b)  # trailing\n')
RAISERS = (  # second definitions on which the CST stage raises although the AST stage found work to do on `conv`
    "\n\nclass Proto(object):\n    def meth(self, x):\n        ...\n",
    "\n\ndef num(x):\n    5\n    return x\n",
    "",  # none: the conversion succeeds
)
STYLES = ("rest", "google", "numpydoc")


def error_leaves_file(raiser, style, type_annotations, no_word_wrap):
    import contextlib
    import io

    from cdd.compound.doctrans import doctrans

    src = CONVERTIBLE + RAISERS[0]
    for k in (1, 2):
        if raiser == k:
            src = CONVERTIBLE + RAISERS[k]
    fmt = STYLES[0]
    for k in (1, 2):
        if style == k:
            fmt = STYLES[k]
    _N[0] += 1
    filename = os.path.join(_ROOT, "m%d.py" % _N[0])
    with open(filename, "wt") as f:
        f.write(src)
    err = None
    try:
        with contextlib.redirect_stdout(io.StringIO()), contextlib.redirect_stderr(io.StringIO()):
            try:
                doctrans(filename=filename, docstring_format=fmt, type_annotations=type_annotations, no_word_wrap=True if no_word_wrap else None)
            except Exception as e:
                err = e
        with open(filename, "rt") as f:
            after = f.read()
    finally:
        os.remove(filename)
    if err is not None:
        if after != src:
            return "the conversion failed with %s but the file was changed (%d bytes before, %d after)" % (type(err).__name__, len(src), len(after))
        return ""
    if "# module level comment" not in after or "# a comment" not in after or "# trailing" not in after:
        return "a comment was lost by a successful conversion"
    return ""


ob("C07", "K5.error_leaves_file", {"raiser": R(0, 2), "style": R(0, 2), "type_annotations": BOOL, "no_word_wrap": BOOL}, enum=True, T=900, tpath=120,
   funcs=["cdd.compound.doctrans.doctrans", "cdd.compound.doctrans_utils.doctransify_cst", "cdd.compound.doctrans_utils.DocTrans"],
   bound="cdd.compound.doctrans.doctrans on a scratch file (outside /repo and /verif) holding a convertible function plus a definition on which the CST stage "
         "raises (stub body '...', bare number) or nothing; target style, --type-annotations, word-wrap: solver-enumerated. On error the file is byte-identical; on success the comments survive")(error_leaves_file)


# K6: the program is unchanged: AST identical once docstrings and annotations are erased (whole command on fixture modules) ---------------------
FIXTURE = ('''# module comment
import os


def plain(a, b=12, *args, c=3, **kwargs):
    """
    Plain doc.

    :param a: the a
    :type a: ```int```

    :param b: the b
    :type b: ```int```

    :return: res
    :rtype: ```int```
    """
    # inner comment
    return a


def kwonly(host, port, *, timeout: float = 3.0, retries: int = 2):
    """
    Kw doc.

    :param host: the host

    :param port: the port

    :param timeout: the timeout

    :param retries: the retries
    """
    return host


class K(object):
    """
    K doc.

    :cvar x: the x
    """

    x: int = 5

    @staticmethod
    def meth(self_like, key="k", *rest):
        """
        Meth doc.

        :param key: the key
        :type key: ```str```
        """
        def nested(z=1):
            return z
        return nested(key)
''')


FIXTURE2 = ('''"""Module doc."""
import functools
from typing import Tuple, Optional, List


@functools.lru_cache(maxsize=None)
def cached(n, scale=2.5) -> Tuple[()]:
    """
    Cached doc.

    :param n: the n
    :type n: ```int```

    :param scale: the scale
    :type scale: ```float```

    :return: nothing
    :rtype: ```Tuple[()]```
    """
    return ()


def nothing(count, label="x", *rest, sep=", ", **kw) -> Tuple[()]:
    """
    Nothing doc.

    :param count: the count
    :type count: ```int```

    :param label: the label
    :type label: ```str```

    :return: nothing at all
    :rtype: ```Tuple[()]```
    """
    return ()


async def fetch(url, timeout=3, *, retries=2):
    """
    Fetch doc.

    :param url: the url
    :type url: ```str```

    :param timeout: the timeout
    :type timeout: ```int```

    :param retries: the retries
    :type retries: ```int```
    """
    return url


def multi(
    first,
    second="s",
    *rest,
    flag=False
):
    """
    Multi doc.

    :param first: the first
    :type first: ```int```

    :param second: the second
    :type second: ```str```

    :param flag: the flag
    :type flag: ```bool```
    """
    x = first  # trailing comment
    return x


class Outer(Base if False else object):
    """
    Outer doc.
    """

    class Inner:
        """Inner doc."""

        def m(self, q: Optional[List[str]] = None) -> Optional[List[str]]:
            """
            M doc.

            :param q: the q
            """
            return q
''')
FIXTURE3 = ('''import os


def goog(alpha, beta=3, *, gamma="g"):
    """
    Goog doc.

    Args:
      alpha (int): the alpha
      beta (int): the beta. Defaults to 3
      gamma (str): the gamma

    Returns:
      bool: whether
    """
    return bool(alpha)  # tail


def nump(alpha, beta=2.5):
    """
    Nump doc.

    Parameters
    ----------
    alpha : int
        the alpha
    beta : float
        the beta

    Returns
    -------
    float
        the sum
    """
    total = alpha + beta
    return total


def bare(x, y=os.sep):
    return x


def route(mapping="src->dst", retries=3, sep=" -> ") -> int:
    """
    Route doc.

    Args:
      mapping (str): the mapping
      retries (int): the retries
      sep (str): the separator

    Returns:
      int: the count
    """
    return retries


class Holder(object):
    """
    Holder doc.

    Attributes:
      size (int): the size
    """

    size: int = 4

    def meth(self, key, default=None):
        """
        Meth doc.

        Args:
          key (str): the key
          default (Optional[str]): the default
        """
        if key:
            return key
        return default

    async def ameth(self, n=1):
        # leading comment, no docstring
        return n
''')
FIXTURES = (FIXTURE, FIXTURE2, FIXTURE3)


def _comments(text):
    import io
    import tokenize

    return [t.string for t in tokenize.generate_tokens(io.StringIO(text).readline) if t.type == tokenize.COMMENT]


def other_lines(text):
    """lines that are neither part of a definition header, a docstring, nor an annotated assignment"""
    mod = ast.parse(text)
    skip = set()
    def docnode(n):
        b = getattr(n, "body", None)
        if b and isinstance(b[0], ast.Expr) and isinstance(getattr(b[0], "value", None), ast.Constant) and isinstance(b[0].value.value, str):
            return b[0]
    for n in ast.walk(mod):
        if isinstance(n, (ast.FunctionDef, ast.AsyncFunctionDef, ast.ClassDef)):
            first = n.body[0]
            for l in range(n.lineno, max(n.lineno, first.lineno - 1) + 1):
                skip.add(l)
        if isinstance(n, (ast.FunctionDef, ast.AsyncFunctionDef, ast.ClassDef, ast.Module)):
            d = docnode(n)
            if d is not None:
                for l in range(d.lineno, d.end_lineno + 1):
                    skip.add(l)
        if isinstance(n, ast.AnnAssign) or (isinstance(n, ast.Assign) and n.type_comment):
            for l in range(n.lineno, n.end_lineno + 1):
                skip.add(l)
    return [ln for i, ln in enumerate(text.split("\n"), 1) if i not in skip]


def _erase(mod):
    import copy

    mod = copy.deepcopy(mod)
    for node in ast.walk(mod):
        if isinstance(node, (ast.FunctionDef, ast.AsyncFunctionDef, ast.ClassDef, ast.Module)):
            if node.body and isinstance(node.body[0], ast.Expr) and isinstance(getattr(node.body[0], "value", None), ast.Constant) and isinstance(node.body[0].value.value, str):
                node.body = node.body[1:] or [ast.Pass()]
        if isinstance(node, (ast.FunctionDef, ast.AsyncFunctionDef)):
            node.returns = None
            for a in node.args.args + node.args.kwonlyargs + node.args.posonlyargs + [x for x in (node.args.vararg, node.args.kwarg) if x]:
                a.annotation = None
                a.type_comment = None
    for node in ast.walk(mod):
        body = getattr(node, "body", None)
        if isinstance(body, list):
            for i, st in enumerate(body):
                if isinstance(st, ast.AnnAssign) and st.value is not None:
                    body[i] = ast.Assign(targets=[st.target], value=st.value, lineno=0, col_offset=0)
    return ast.dump(mod)


def program_unchanged(style, type_annotations, no_word_wrap, fx=0):
    import contextlib
    import io

    from cdd.compound.doctrans import doctrans

    fmt = STYLES[0]
    for k in (1, 2):
        if style == k:
            fmt = STYLES[k]
    fixture = FIXTURES[2] if fx == 2 else (FIXTURES[1] if fx == 1 else FIXTURES[0])
    _N[0] += 1
    filename = os.path.join(_ROOT, "p%d.py" % _N[0])
    with open(filename, "wt") as f:
        f.write(fixture)
    err = None
    try:
        with contextlib.redirect_stdout(io.StringIO()), contextlib.redirect_stderr(io.StringIO()):
            try:
                doctrans(filename=filename, docstring_format=fmt, type_annotations=type_annotations, no_word_wrap=True if no_word_wrap else None)
            except Exception as e:
                err = e
        with open(filename, "rt") as f:
            after = f.read()
    finally:
        os.remove(filename)
    if err is not None:
        return "" if after == fixture else "failed conversion changed the file"
    try:
        mod = ast.parse(after)
    except SyntaxError as e:
        return "the converted file is not valid Python: %s" % e
    if _erase(mod) != _erase(ast.parse(fixture)):
        heads = [l for l in after.splitlines() if l.lstrip().startswith(("def ", "class ", "@"))]
        return "the program changed (AST differs once docstrings and annotations are erased); headers now: %r" % (heads,)
    la, lb = other_lines(fixture), other_lines(after)
    if la != lb:
        diff = [(x, y) for x, y in zip(la, lb) if x != y][:2] or [("<%d lines>" % len(la), "<%d lines>" % len(lb))]
        return "a line that is neither a definition header, a docstring nor an annotated assignment is not byte-identical: %r" % (diff,)
    if _comments(after) != _comments(fixture):
        return "comments changed: %r -> %r" % (_comments(fixture), _comments(after))
    return ""


ob("C07", "K6.program_unchanged.wrap", {"style": R(0, 2), "type_annotations": BOOL, "no_word_wrap": R(0, 0)}, enum=True, T=900, tpath=200,
   funcs=["cdd.compound.doctrans.doctrans"], bound="as K6.program_unchanged with word-wrap ON")(program_unchanged)
ob("C07", "K6.program_unchanged", {"style": R(0, 2), "type_annotations": BOOL, "no_word_wrap": R(1, 1)}, enum=True, T=900, tpath=200,
   funcs=["cdd.compound.doctrans.doctrans", "cdd.compound.doctrans_utils.DocTrans", "cdd.compound.doctrans_utils.doctransify_cst",
          "cdd.shared.ast_cst_utils.maybe_replace_function_args", "cdd.shared.ast_cst_utils.maybe_replace_function_return_type",
          "cdd.shared.ast_cst_utils.maybe_replace_doc_str_in_function_or_class"],
   bound="the whole doctrans() on a scratch fixture module (function with defaults/*args/kw-only/**kwargs and a trailing comment, function with annotated keyword-only "
         "parameters, class with attribute, decorated method with a nested function) x target style x --type-annotations (solver-enumerated; word-wrap off here, on in the thorough twin): valid Python, "
         "AST identical once docstrings and annotations are erased, comment tokens kept in order, every line outside definition headers / docstrings / annotated assignments byte-identical")(program_unchanged)
ob("C07", "K6.program_unchanged.fx2", {"style": R(0, 2), "type_annotations": BOOL, "no_word_wrap": BOOL, "fx": R(1, 1)}, enum=True, T=1800, tpath=200,
   funcs=["cdd.compound.doctrans.doctrans"],
   bound="the whole doctrans() on a second scratch fixture (decorated and undecorated functions whose return annotation contains parentheses, async function with keyword-only "
         "parameters, multi-line header, trailing comment, class with computed base, nested class with an annotated method) x target style x --type-annotations x word-wrap: "
         "valid Python, AST identical once docstrings and annotations are erased, same comment tokens in the same order")(program_unchanged)
ob("C07", "K6.program_unchanged.fx3", {"style": R(0, 2), "type_annotations": BOOL, "no_word_wrap": BOOL, "fx": R(2, 2)}, enum=True, T=1800, tpath=200,
   funcs=["cdd.compound.doctrans.doctrans"],
   bound="the whole doctrans() on a third scratch fixture whose SOURCE docstrings are Google and NumPy style (keyword-only parameter, 'Defaults to' prose, Returns sections), a function "
         "without docstring whose default is an attribute expression, a class documented with an Attributes section, a method, and an async method without docstring x target style x "
         "--type-annotations x word-wrap: valid Python, AST identical once docstrings and annotations are erased, comments and other lines byte-identical")(program_unchanged)
