"""C20 - exmod --dry-run writes nothing; a real run stays inside the output directory (DESIGN.md section 6, C20; weakest claim)."""
import atexit
import builtins
import os
import shutil
import sys
import tempfile

from chx.ob import BOOL, CP, PR, R, U, known_active, ob

FUNCS = ["cdd.compound.exmod.exmod", "cdd.compound.exmod.exmod_single_folder", "cdd.compound.exmod._create_sqlalchemy_mod",
         "cdd.compound.exmod_utils.emit_files_from_module_and_return_imports", "cdd.compound.exmod_utils.emit_file_on_hierarchy",
         "cdd.compound.exmod_utils._emit_symbol", "cdd.shared.emit.file.file"]
ASSUMPTIONS = ["SOLVER-ENUMERATED: the option flags are the only symbolic values; each is made concrete by a fork (chx.shim.fix_bool/fix_int) and the command then runs untraced on the real file system, with the real black",
               "file-system mutators (os.mkdir/makedirs/remove/rename/rmdir/unlink/replace, shutil.rmtree/copy*/move, open for w/a/x/+) are wrapped by "
               "recording monitors that then perform the real operation inside a scratch directory created per execution outside /repo and /verif",
               "the fixture package tree is concrete (2 levels, classes and functions re-exported through __init__ and __all__); option flags are solver booleans: "
               "the claim is path-exhaustive over the options for THIS tree and says nothing about other trees"]

_ROOT = tempfile.mkdtemp(prefix="chx_c20_")
atexit.register(shutil.rmtree, _ROOT, True)
OUTER = "fxo%d" % os.getpid()
PKG = OUTER + ".inner"  # a two-segment module: exmod splits it into module_root (the outer package) and the sub-module it exposes
_SRC = os.path.join(_ROOT, "src")
FILES = {
    "__init__.py": "from {p}.mod_a import A\nfrom {p}.sub.mod_b import b_fn\n\n__all__ = ['A', 'b_fn']\n",
    "mod_a.py": "class A(object):\n    \"\"\"\n    An A.\n\n    :cvar x: the x\n    :cvar name: the name\n    \"\"\"\n\n    x: int = 5\n    name: str = 'n'\n\n\n__all__ = ['A']\n",
    "sub/__init__.py": "from {p}.sub.mod_b import b_fn\n\n__all__ = ['b_fn']\n",
    "sub/mod_b.py": "def b_fn(a=5):\n    \"\"\"\n    A b.\n\n    :param a: the a\n    :type a: ```int```\n\n    :return: res\n    :rtype: ```int```\n    \"\"\"\n    return a\n\n\n__all__ = ['b_fn']\n",
}
os.makedirs(os.path.join(_SRC, OUTER), exist_ok=True)
open(os.path.join(_SRC, OUTER, "__init__.py"), "w").close()
for _rel, _text in FILES.items():
    _p = os.path.join(_SRC, OUTER, "inner", _rel)
    os.makedirs(os.path.dirname(_p), exist_ok=True)
    with open(_p, "w") as _f:
        _f.write(_text.format(p=PKG))
# second tree: the exposed sub-module re-exports a symbol that is defined OUTSIDE it (in a sibling module of the outer package)
OUTER2 = "fxq%d" % os.getpid()
PKG2 = OUTER2 + ".api"
FILES2 = {
    "__init__.py": "",
    "util.py": "class Helper(object):\n    \"\"\"\n    A helper.\n\n    :cvar h: the h\n    \"\"\"\n\n    h: int = 1\n\n\n__all__ = ['Helper']\n",
    "api/__init__.py": "from {o}.util import Helper\nfrom {o}.api.local import Local\n\n__all__ = ['Helper', 'Local']\n",
    "api/local.py": "class Local(object):\n    \"\"\"\n    A local.\n\n    :cvar v: the v\n    \"\"\"\n\n    v: str = 'v'\n\n\n__all__ = ['Local']\n",
}
for _rel, _text in FILES2.items():
    _p = os.path.join(_SRC, OUTER2, _rel)
    os.makedirs(os.path.dirname(_p), exist_ok=True)
    with open(_p, "w") as _f:
        _f.write(_text.format(o=OUTER2))
# third tree: the top-level __init__ re-exports one symbol from a leaf module and one THROUGH a sub-package's __init__ (both end up in the generated top-level __init__)
OUTER3 = "fxr%d" % os.getpid()
PKG3 = OUTER3 + ".lib"
_CLS = "class {n}(object):\n    \"\"\"\n    A {n}.\n\n    :cvar v: the v\n    \"\"\"\n\n    v: int = 1\n\n\n__all__ = ['{n}']\n"
FILES3 = {
    "__init__.py": "",
    "lib/__init__.py": "from {o}.lib.alpha import Alpha\nfrom {o}.lib.sub import Gamma\n\n__all__ = ['Alpha', 'Gamma']\n",
    "lib/alpha.py": _CLS.replace("{n}", "Alpha"),
    "lib/sub/__init__.py": "from {o}.lib.sub.gamma import Gamma\n\n__all__ = ['Gamma']\n",
    "lib/sub/gamma.py": _CLS.replace("{n}", "Gamma"),
}
for _rel, _text in FILES3.items():
    _p = os.path.join(_SRC, OUTER3, _rel)
    os.makedirs(os.path.dirname(_p), exist_ok=True)
    with open(_p, "w") as _f:
        _f.write(_text.replace("{o}", OUTER3))
# fourth tree: the same layout as the third, but the exposed module is a TOP-LEVEL (single-segment) package
PKG4 = "fxs%d" % os.getpid()
for _rel, _text in FILES3.items():
    if not _rel.startswith("lib/"):
        continue
    _p = os.path.join(_SRC, PKG4, _rel[4:])
    os.makedirs(os.path.dirname(_p), exist_ok=True)
    with open(_p, "w") as _f:
        _f.write(_text.replace("{o}.lib", PKG4))
sys.path.insert(0, _SRC)
_COUNTER = [0]


def unbound_all(root):
    """generated .py files under `root` whose __all__ names something the file neither defines nor imports (or that are not valid Python)"""
    import ast as _ast

    bad = []
    for dp, _dn, fns in os.walk(root):
        for fn in sorted(fns):
            if not fn.endswith(".py"):
                continue
            path = os.path.join(dp, fn)
            with open(path, "rt") as f:
                text = f.read()
            try:
                mod = _ast.parse(text)
            except SyntaxError as e:
                bad.append("%s is not valid Python: %s" % (os.path.relpath(path, root), e))
                continue
            bound, alls = set(), []
            for n in mod.body:
                if isinstance(n, (_ast.ClassDef, _ast.FunctionDef, _ast.AsyncFunctionDef)):
                    bound.add(n.name)
                elif isinstance(n, (_ast.Import, _ast.ImportFrom)):
                    bound.update((a.asname or a.name).split(".")[0] for a in n.names)
                elif isinstance(n, (_ast.Assign, _ast.AnnAssign)):
                    for t in (n.targets if isinstance(n, _ast.Assign) else [n.target]):
                        if isinstance(t, _ast.Name):
                            if t.id == "__all__" and isinstance(n.value, (_ast.List, _ast.Tuple)):
                                alls = [e.value for e in n.value.elts if isinstance(e, _ast.Constant)]
                            bound.add(t.id)
            missing = [a for a in alls if a not in bound]
            if missing:
                bad.append("%s: __all__ names %r which the file neither defines nor imports" % (os.path.relpath(path, root), missing))
    return bad
EMITS = ("class", "function", "argparse", "sqlalchemy", "sqlalchemy_table", "json_schema", "pydantic")


class FsMonitor:
    NAMES = {"os": ("mkdir", "makedirs", "remove", "rename", "rmdir", "unlink", "replace", "symlink", "link", "truncate"),
             "shutil": ("rmtree", "copy", "copy2", "copyfile", "copytree", "move")}

    def __init__(self):
        self.log = []
        self.saved = []

    def __enter__(self):
        import cdd.compound.exmod as ex
        import cdd.compound.exmod_utils as exu
        import cdd.shared.emit.file as ef
        import cdd.shared.pkg_utils as pk
        import cdd.sqlalchemy.utils.emit_utils as sq

        mods = (ex, exu, ef, pk, sq)
        from chx.shim import REPLAYING

        if False:  # (historical) black used to be stubbed because it is very slow when traced; the bodies now run untraced, so the real black formats the files
            pass
        for modname, names in self.NAMES.items():
            lib = __import__(modname)
            for n in names:
                real = getattr(lib, n, None)
                if real is None:
                    continue
                wrapped = self._wrap(modname + "." + n, real)
                self._set(lib.__dict__, n, wrapped)
                for m in mods:  # `from os import mkdir` copies
                    if m.__dict__.get(n) is real:
                        self._set(m.__dict__, n, wrapped)
        real_open = builtins.open

        def mon_open(file, mode="r", *a, **kw):
            if any(c in mode for c in "wax+"):
                self.log.append(("open:" + mode, os.path.realpath(str(file))))
            return real_open(file, mode, *a, **kw)

        for m in mods:
            self._set(m.__dict__, "open", mon_open)
        return self

    def _set(self, d, k, v):
        self.saved.append((d, k, d.get(k, FsMonitor)))
        d[k] = v

    def _wrap(self, name, real):
        def w(*a, **kw):
            self.log.append((name, os.path.realpath(str(a[0])) if a else ""))
            return real(*a, **kw)

        return w

    def __exit__(self, *exc):
        for d, k, old in reversed(self.saved):
            if old is FsMonitor:
                d.pop(k, None)
            else:
                d[k] = old
        return False


def run_exmod(emit, dry_run, recursive, no_word_wrap, blacklist_sub, sql_sub, preexisting, bl_root=False, wl=0, tree=0, installed=False, named=False, mock=True):
    import contextlib
    import io

    import cdd.compound.exmod as ex
    import cdd.compound.exmod_utils as exu

    _COUNTER[0] += 1  # not tempfile.mkdtemp: its random names are modelled as nondeterminism by the engine and fork paths
    out = os.path.join(_ROOT, "work_%d" % _COUNTER[0], "gold" if named else "out") if tree else os.path.join(_ROOT, "out_%d" % _COUNTER[0])  # named: the output directory IS the target module ('gold')
    PKG = PKG4 if tree == 3 else (PKG3 if tree == 2 else (PKG2 if tree else globals()["PKG"]))
    if tree:
        os.makedirs(os.path.dirname(out))
    if preexisting:
        os.mkdir(out)
    out_real = os.path.realpath(out)
    src_real = os.path.realpath(_SRC)
    stream = io.StringIO()
    saved_stream = exu.EXMOD_OUT_STREAM
    exu.EXMOD_OUT_STREAM = stream
    try:
        with FsMonitor() as mon, contextlib.redirect_stdout(io.StringIO()), contextlib.redirect_stderr(io.StringIO()):
            if installed:  # environment: the analysed package lives under the interpreter's library directory (an installed distribution)
                import cdd.shared.pkg_utils as pk

                mon._set(pk.__dict__, "get_python_lib", lambda prefix="", *a, **kw: _SRC)
            try:
                ex.exmod(emit_name=emit, module=PKG, blacklist=(["sub"] if blacklist_sub else []) + ([PKG] if bl_root else []),
                         whitelist=([PKG] if wl == 1 else (["other.mod"] if wl == 2 else [])), output_directory=out,
                         target_module_name="gold", mock_imports=mock, emit_sqlalchemy_submodule=sql_sub, extra_modules=None,
                         no_word_wrap=True if no_word_wrap else None, recursive=recursive, dry_run=dry_run)
                err = None
            except Exception as e:  # the property is about what is touched, also when the command fails
                err = e
        log = list(mon.log)
        generated_bad = unbound_all(out) if (not dry_run and err is None and os.path.isdir(out)) else []
    finally:
        exu.EXMOD_OUT_STREAM = saved_stream
        shutil.rmtree(os.path.dirname(out) if tree else out, ignore_errors=True)
    if generated_bad:
        return "generated file: " + generated_bad[0]
    if dry_run:
        if log:
            return "dry run reached a file-system mutator: %s %s" % (log[0][0], log[0][1].replace(out_real, "<out>"))
        if preexisting is False and os.path.exists(out):
            return "dry run created the output directory"
        return ""
    for op, p in log:
        if not (p == out_real or p.startswith(out_real + os.sep)):
            return "real run touched a path outside the output directory: %s %s" % (op, p)
        if p.startswith(src_real + os.sep):
            return "real run modified the source package: %s %s" % (op, p)
    if err is None and not log:
        return "real run wrote nothing"
    root_out = [p for op, p in log if p == os.path.join(out_real, "__init__.py") or p == os.path.join(out_real, "gold") or p.startswith(os.path.join(out_real, "gold") + os.sep)]
    if (bl_root or wl == 2) and root_out:
        return "the exposed module is %s but produced output: %s" % ("blacklisted" if bl_root else "not in the whitelist", root_out[0].replace(out_real, "<out>"))
    if wl == 2 and [p for op, p in log if p != out_real]:
        return "nothing is whitelisted but the run produced output"
    if blacklist_sub:
        for op, p in log:
            if p == os.path.join(out_real, "sub") or p.startswith(os.path.join(out_real, "sub") + os.sep):
                return "the blacklisted sub-package produced output: %s %s" % (op, p.replace(out_real, "<out>"))
    return ""


def dry_after_real(emit, rec1, rec2, sql_sub):
    """history: a REAL run populates the output directory, then a DRY run over it must not touch anything"""
    import contextlib
    import io

    import cdd.compound.exmod as ex
    import cdd.compound.exmod_utils as exu

    _COUNTER[0] += 1
    out = os.path.join(_ROOT, "out_%d" % _COUNTER[0])
    stream = io.StringIO()
    saved_stream = exu.EXMOD_OUT_STREAM
    exu.EXMOD_OUT_STREAM = stream
    kw = dict(emit_name=emit, module=PKG, blacklist=[], whitelist=[], output_directory=out, target_module_name="gold", mock_imports=True,
              emit_sqlalchemy_submodule=sql_sub, extra_modules=None, no_word_wrap=None)
    try:
        with contextlib.redirect_stdout(io.StringIO()), contextlib.redirect_stderr(io.StringIO()):
            with FsMonitor():  # (black stub active under the engine)
                try:
                    ex.exmod(recursive=rec1, dry_run=False, **kw)
                except Exception:
                    pass
            with FsMonitor() as mon:
                try:
                    ex.exmod(recursive=rec2, dry_run=True, **kw)
                except Exception:
                    pass
        log = list(mon.log)
    finally:
        exu.EXMOD_OUT_STREAM = saved_stream
        shutil.rmtree(out, ignore_errors=True)
    if log:
        return "dry run over a populated output directory reached a file-system mutator: %s %s" % (log[0][0], log[0][1].replace(os.path.realpath(out), "<out>"))
    return ""


def _dar(e, rec1, rec2, sql_sub):
    from chx.shim import fix_bool, untraced

    a = (fix_bool(rec1), fix_bool(rec2), fix_bool(sql_sub))
    return untraced(lambda: dry_after_real(e, *a))


def _mk(emit):
    def body(dry_run, recursive, no_word_wrap, blacklist_sub, sql_sub, preexisting, bl_root=False, wl=0):
        from chx.shim import fix_bool, fix_int, untraced

        a = (fix_bool(dry_run), fix_bool(recursive), fix_bool(no_word_wrap), fix_bool(blacklist_sub), fix_bool(sql_sub), fix_bool(preexisting), fix_bool(bl_root), fix_int(wl, 0, 2))
        return untraced(lambda: run_exmod(emit, *a))

    body.__name__ = "exmod_" + emit
    return body


for _e in EMITS:
    _sql = _e.startswith("sqlalchemy")
    ob("C20", "P1.dry.%s" % _e, {"dry_run": R(1, 1), "recursive": BOOL, "no_word_wrap": R(0, 0), "blacklist_sub": BOOL, "sql_sub": BOOL if _sql else R(0, 0), "preexisting": BOOL},
       tier="quick" if _e in ("class", "sqlalchemy", "function", "argparse") else "thorough", T=900, tpath=300, funcs=FUNCS,
       bound="DRY RUN on the fixture package (2 levels, class + function re-exported through __init__/__all__), emit kind %s; recursive, blacklist of the sub-package, "
             "%soutput directory pre-existing or not: all solver booleans; no file-system mutator may be reached" % (_e, "emit_sqlalchemy_submodule, " if _sql else ""))(_mk(_e))
    ob("C20", "P1.real.%s" % _e, {"dry_run": R(0, 0), "recursive": BOOL, "no_word_wrap": R(0, 0), "blacklist_sub": R(0, 0), "sql_sub": R(0, 0), "preexisting": R(0, 0)},
       tier="quick" if _e in ("class", "sqlalchemy") else "thorough", T=1200, tpath=500, funcs=FUNCS,
       bound="REAL run on the fixture package, emit kind %s, recursive on/off (solver boolean): every mutated path lies under the output directory, none under the source package" % _e)(_mk(_e))
    ob("C20", "P1.real_flags.%s" % _e, {"dry_run": R(0, 0), "recursive": R(1, 1), "no_word_wrap": R(0, 0), "blacklist_sub": BOOL, "sql_sub": BOOL if _sql else R(0, 0), "preexisting": BOOL},
       tier="quick" if _e in ("class", "sqlalchemy") else "thorough", T=1500, tpath=600, funcs=FUNCS,
       bound="REAL recursive run, emit kind %s: blacklist of the sub-package, %soutput directory pre-existing or not (solver booleans); paths under the output directory only, "
             "blacklisted sub-package produces no output" % (_e, "emit_sqlalchemy_submodule, " if _sql else ""))(_mk(_e))


for _e in ("class", "sqlalchemy_table", "sqlalchemy", "sqlalchemy_hybrid", "function"):
    ob("C20", "P2.dry_after_real.%s" % _e, {"rec1": BOOL, "rec2": BOOL, "sql_sub": BOOL if _e.startswith("sqlalchemy") else R(0, 0)},
       tier="quick" if _e in ("class", "sqlalchemy_table") else "thorough", T=1500, tpath=600, funcs=FUNCS,
       bound="history of two runs on the same output directory: a real run (recursive on/off) then a dry run (recursive on/off), emit kind %s%s: the dry run reaches no mutator"
             % (_e, ", emit_sqlalchemy_submodule on/off" if _e.startswith("sqlalchemy") else ""))((lambda e: (lambda rec1, rec2, sql_sub: _dar(e, rec1, rec2, sql_sub)))(_e))


for _e in ("class", "function", "sqlalchemy_table"):
    ob("C20", "P3.lists.%s" % _e, {"dry_run": R(0, 0), "recursive": BOOL, "no_word_wrap": R(0, 0), "blacklist_sub": R(0, 0), "sql_sub": R(0, 0), "preexisting": R(0, 0),
                                  "bl_root": BOOL, "wl": R(0, 2)}, tier="quick" if _e == "class" else "thorough", T=1500, tpath=600, funcs=FUNCS,
       bound="REAL run, emit kind %s: the exposed module itself in the blacklist or not, whitelist empty / naming it / naming another module, recursive on/off "
             "(solver-enumerated): a blacklisted or non-whitelisted module produces no output, also when it is in both lists" % _e)(_mk(_e))


# P4: second tree - the exposed sub-module re-exports a symbol defined OUTSIDE it; installed or not; output directory named like the target module or not ------
def _mk2(emit):
    def body(dry_run, recursive, installed, named, preexisting):
        from chx.shim import fix_bool, untraced

        a = (fix_bool(dry_run), fix_bool(recursive), fix_bool(installed), fix_bool(named), fix_bool(preexisting))
        return untraced(lambda: run_exmod(emit, a[0], a[1], 0, False, False, a[4], tree=1, installed=a[2], named=a[3]))

    body.__name__ = "exmod_reexport_" + emit
    return body


for _e in ("class", "function", "sqlalchemy"):
    ob("C20", "P4.reexport.%s" % _e, {"dry_run": BOOL, "recursive": BOOL, "installed": BOOL, "named": BOOL, "preexisting": BOOL}, tier="quick" if _e == "class" else "thorough",
       T=2400, tpath=600, funcs=FUNCS + ["cdd.shared.pkg_utils.relative_filename"],
       assumes=["environment stub (solver boolean `installed`): cdd.shared.pkg_utils.get_python_lib answers the scratch source root, i.e. the analysed package is an installed distribution"],
       bound="second fixture package: the exposed sub-module <pkg>.api re-exports through __all__ a class defined in the sibling module <pkg>.util and one of its own; emit kind %s; "
             "dry run or real, recursive, package installed under the interpreter's lib directory or not, output directory named like the target module ('gold') or not, pre-existing or not "
             "(all solver booleans): a dry run reaches no mutator, a real run touches only paths under the output directory" % _e)(_mk2(_e))


# P5: every generated file is valid Python whose __all__ names symbols it defines or imports (third and fourth trees: re-export through a sub-package's __init__) -------
def _mk5(emit):
    def body(tree, recursive, installed, named, mock):
        return run_exmod(emit, 0, recursive, 0, False, False, 0, tree=tree, installed=installed, named=named, mock=mock)

    body.__name__ = "exmod_allbound_" + emit
    return body


for _e in EMITS:
    ob("C20", "P5.all_bound.%s" % _e, {"tree": R(0, 3), "recursive": BOOL, "installed": BOOL, "named": BOOL, "mock": BOOL}, enum=True, tier="quick" if _e in ("class", "function", "sqlalchemy") else "thorough",
       T=1500, tpath=300, funcs=FUNCS + ["cdd.compound.exmod_utils._emit_symbol", "cdd.shared.ast_utils.merge_modules"],
       bound="REAL run, emit kind %s, on each of the four fixture trees (two-segment and single-segment exposed modules; re-export from a leaf module, from outside the module, and THROUGH a "
             "sub-package's __init__), recursive, installed, output directory named like the target, mock_imports (solver booleans): every generated .py file parses and its __all__ names only "
             "symbols the file defines or imports; paths under the output directory only" % _e)(_mk5(_e))
