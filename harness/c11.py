"""C11 - every parse / emit call terminates (DESIGN.md section 6, C11).

Every `while` loop of the anchored modules is given a per-activation iteration counter (chx/instrument.py,
regenerated from the current source at run time); the obligation is that no loop activation exceeds a
bound linear in the size of the input, for every symbolic input.  `for` loops over finite sequences cannot
diverge; the modules are checked syntactically (SYNTACTIC) for `for` loops whose iterable is mutated in
the body and for itertools.count/cycle/repeat.
"""
import ast
import os
import random
from collections import OrderedDict

from chx.instrument import FUEL, FuelExhausted, instrument_fuel
from chx.ob import BOOL, CP, PR, R, U, ob
from chx.ob import REPO as _REPO
from harness.shims import ADHOC_SHIMS_DOC
from harness.skeletons import EDGE_SKELETONS, SKELETONS

SEED = int(os.environ.get("VERIF_SEED", "0") or 0)

import cdd.docstring.emit as _emit  # noqa: E402
import cdd.docstring.utils.parse_utils as _pu  # noqa: E402
import cdd.shared.ast_utils as _au  # noqa: E402
import cdd.shared.docstring_utils as _du  # noqa: E402

def _modules_with_while():
    """every non-test module of the CURRENT tree whose source contains a `while` statement (so a loop added anywhere gets fuel)"""
    import glob
    import importlib

    mods = [_emit, _du, _pu, _au]
    for fn in sorted(glob.glob(_REPO + "/cdd/**/*.py", recursive=True)):
        rel = fn[len(_REPO) + 1:-3]
        if "/tests/" in fn or rel.endswith("__main__") or rel.endswith("setup"):
            continue
        try:
            with open(fn) as f:
                tree = ast.parse(f.read())
        except (OSError, SyntaxError):
            continue
        if not any(isinstance(n, ast.While) for n in ast.walk(tree)):
            continue
        try:
            m = importlib.import_module(rel[:-len("/__init__")].replace("/", ".") if rel.endswith("/__init__") else rel.replace("/", "."))
        except Exception:  # pragma: no cover - a module that does not import cannot be called either
            continue
        if m not in mods:
            mods.append(m)
    return tuple(mods)


MODS = _modules_with_while()
SITES = []
for _m in MODS:
    SITES += instrument_fuel(_m)

EXPLANATION = (
    "C11: `while` sites instrumented with a per-activation iteration counter: %s. Bound asserted: iterations of one "
    "loop activation <= 4*len(input)+64." % ", ".join(SITES)
)


def _unbounded_for_sites():
    """syntactic side condition: no `for` loop mutates the list it iterates, no infinite iterators"""
    bad = []
    files = [m.__file__ for m in MODS] + [
        _REPO + "/cdd/shared/docstring_parsers.py", _REPO + "/cdd/shared/defaults_utils.py", _REPO + "/cdd/shared/cst_utils.py"]
    for fn in dict.fromkeys(files):
        tree = ast.parse(open(fn).read())
        for n in ast.walk(tree):
            if isinstance(n, ast.For) and isinstance(n.iter, ast.Name):
                for sub in ast.walk(ast.Module(body=n.body, type_ignores=[])):
                    if (isinstance(sub, ast.Call) and isinstance(sub.func, ast.Attribute)
                            and isinstance(sub.func.value, ast.Name) and sub.func.value.id == n.iter.id
                            and sub.func.attr in ("append", "extend", "insert")):
                        bad.append("%s:%d for-loop appends to its own iterable" % (fn, n.lineno))
            if isinstance(n, ast.Call) and isinstance(n.func, ast.Name) and n.func.id in ("cycle", "repeat"):
                bad.append("%s:%d infinite iterator %s" % (fn, n.lineno, n.func.id))
    return bad


ASSUMPTIONS = [
    "for-loops iterate finite sequences: syntactic scan of the anchored modules found: %s" % (_unbounded_for_sites() or "no for-loop that grows its own iterable, no cycle/repeat"),
    "recursion depth is bounded by CPython's recursion limit (a RecursionError is a raise, not a hang)",
]


def S(cs):
    s = ""
    for c in cs:
        s = s + chr(c)
    return s


def fueled(n_input, thunk, ok_exc=(Exception,)):
    """run thunk under fuel; any ordinary exception = the call returned by raising (allowed by the property)"""
    FUEL.reset(4 * n_input + 64)
    try:
        thunk()
    except FuelExhausted as e:
        return "non-termination suspected: " + str(e)
    except ok_exc:
        pass
    if FUEL.exhausted:
        return "non-termination suspected (exception swallowed): %s" % FUEL.exhausted
    return ""


def _watchdog(expr_src, seconds=10):
    """replay helper: run the UNINSTRUMENTED call in a fresh interpreter under a wall-clock watchdog"""
    import subprocess
    import sys

    try:
        subprocess.run([sys.executable, "-c", "import cdd.class_.parse\n" + expr_src], timeout=seconds,
                       capture_output=True)
        return ""
    except subprocess.TimeoutExpired:
        return "HANG: uninstrumented call did not return within %d s" % seconds


# ---------------------------------------------------------------------------------- emit.docstring
def _ir(doc, pdoc, original=None):
    ir = {"name": "f", "doc": doc, "type": "static",
          "params": OrderedDict((("a", {"doc": pdoc, "typ": "int"}),)) if pdoc is not None else OrderedDict(),
          "returns": None}
    if original is not None:
        ir["_internal"] = {"original_doc_str": original}
    return ir


def _emit_ob(n, style, with_param):
    def body(indent_level, *cs):
        doc = S(cs)
        return fueled(len(doc) + 16, lambda: _emit.docstring(
            _ir(doc, "p" if with_param else None), docstring_format=style, indent_level=indent_level, word_wrap=False))

    def replay(indent_level, *cs):
        doc = S(cs)
        d = body(indent_level, *cs)
        w = _watchdog(
            "import cdd.docstring.emit as e; from collections import OrderedDict as O\n"
            "e.docstring({'name':'f','doc':%r,'type':'static','params':O(%r),'returns':None}, docstring_format=%r, indent_level=%d, word_wrap=False)"
            % (doc, [("a", {"doc": "p", "typ": "int"})] if with_param else [], style, indent_level))
        return (d + " | " + w) if (d or w) else ""

    body.__name__ = "emit_%s_n%d" % (style, n)
    return body, replay


for _style in ("rest", "google", "numpydoc"):
    for _n, _tier, _T in ((1, "quick", 60), (2, "quick", 120), (3, "quick", 300), (4, "thorough", 1500)):
        for _wp in (False, True):
            if _wp and _n > 2 and _tier == "quick":
                continue
            _b, _r = _emit_ob(_n, _style, _wp)
            ob("C11", "emit.%s.%s.n%d" % (_style, "p" if _wp else "nop", _n),
               dict({"indent_level": R(0, 2)}, **{"c%d" % i: CP for i in range(_n)}),
               tier=_tier, T=_T, replay=_r,
               funcs=["cdd.docstring.emit.docstring", "cdd.shared.docstring_utils.header_args_footer_to_str",
                      "cdd.shared.docstring_utils.emit_param_str"],
               bound="IR whose prose `doc` is ANY string of exactly %d code points, %s, style %s, indent_level 0..2, word_wrap=False" % (
                   _n, "one documented int parameter" if _wp else "no parameters", _style))(_b)


# emit with an original docstring carried along (header/footer splice path)
def _emit_orig(n):
    def body(indent_level, *cs):
        orig = S(cs)
        return fueled(len(orig) + 32, lambda: _emit.docstring(
            _ir("h", "p", original=orig), docstring_format="rest", indent_level=indent_level, word_wrap=False))

    body.__name__ = "emit_orig_n%d" % n
    return body


for _n, _tier, _T in ((1, "quick", 60), (2, "quick", 200), (3, "thorough", 900)):
    ob("C11", "emit.orig.n%d" % _n, dict({"indent_level": R(0, 2)}, **{"c%d" % i: CP for i in range(_n)}),
       tier=_tier, T=_T, funcs=["cdd.docstring.emit.docstring", "cdd.shared.docstring_utils.parse_docstring_into_header_args_footer"],
       bound="emit with _internal.original_doc_str = ANY string of exactly %d code points" % _n)(_emit_orig(_n))


# ---------------------------------------------------------------------------------- split / parse
def _split_ob(n):
    def body(*cs):
        doc = S(cs)
        return fueled(len(doc), lambda: _du.parse_docstring_into_header_args_footer(doc, doc))

    body.__name__ = "split_n%d" % n
    return body


for _n, _tier, _T in ((1, "quick", 30), (2, "quick", 60), (3, "quick", 200), (4, "thorough", 1500)):
    ob("C11", "split.n%d" % _n, {"c%d" % i: CP for i in range(_n)}, tier=_tier, T=_T,
       funcs=["cdd.shared.docstring_utils.parse_docstring_into_header_args_footer", "cdd.shared.docstring_utils._get_token_last_idx",
              "cdd.shared.docstring_utils._get_token_last_idx_if_no_next_token"],
       bound="every docstring of exactly %d code points" % _n)(_split_ob(_n))


def _split_pert(doc, pos, mode):
    def body(c):
        ch = chr(c)
        if mode == "ins":
            d = doc[:pos] + ch + doc[pos:]
        elif mode == "sub":
            d = doc[:pos] + ch + doc[pos + 1:]
        else:  # truncation mid-token followed by one arbitrary character
            d = doc[:pos] + ch
        return fueled(len(d), lambda: _du.parse_docstring_into_header_args_footer(d, d))

    body.__name__ = "split_%s_%d" % (mode, pos)
    return body


_ALL = []
for _style, _doc in SKELETONS.items():
    for _pos in range(len(_doc) + 1):
        for _mode in ("ins", "sub", "cut"):
            if _mode == "sub" and _pos >= len(_doc):
                continue
            _ALL.append((_style, _pos, _mode, _doc))
_QUICK = set(random.Random(SEED).sample(range(len(_ALL)), 36))
for _i, (_style, _pos, _mode, _doc) in enumerate(_ALL):
    _q = _i in _QUICK
    if not _q and _mode != "cut":
        continue
    ob("C11", "split.skel.%s.%s%03d" % (_style, _mode, _pos), {"c": CP}, tier="quick" if _q else "thorough", T=120,
       funcs=["cdd.shared.docstring_utils.parse_docstring_into_header_args_footer", "cdd.shared.docstring_utils._get_token_last_idx",
              "cdd.shared.docstring_utils._get_token_last_idx_if_no_next_token"],
       bound="%s skeleton (%d chars) %s at offset %d with ANY code point" % (
           _style, len(_doc), {"ins": "insertion", "sub": "substitution", "cut": "truncated, then one character"}[_mode], _pos),
       )(_split_pert(_doc, _pos, _mode))


def _edge(doc, where):
    def body(c):
        ch = chr(c)
        d = (doc + ch) if where == "append" else (doc[:-1] + ch if where == "last" else ch + doc)
        r = fueled(len(d), lambda: _du.parse_docstring_into_header_args_footer(d, d))
        if r:
            return r
        import cdd.shared.docstring_parsers as dp

        def emit_after_parse():
            ir = dp.parse_docstring(d)
            ir.setdefault("_internal", {})["original_doc_str"] = d
            for style in ("rest", "google", "numpydoc"):
                _emit.docstring(ir, docstring_format=style, word_wrap=False)

        return fueled(len(d) + 64, emit_after_parse)

    return body


for _name, _doc in EDGE_SKELETONS.items():
    for _where in ("append", "last", "prepend"):
        ob("C11", "edge.%s.%s" % (_name, _where), {"c": CP}, tier="quick", T=200,
           funcs=["cdd.shared.docstring_utils.parse_docstring_into_header_args_footer", "cdd.shared.docstring_parsers.parse_docstring", "cdd.docstring.emit.docstring"],
           bound="edge docstring %r with ANY code point %s; split, then parse and re-emit in all three styles carrying the original docstring" % (
               _doc, {"append": "appended", "last": "replacing the last character", "prepend": "prepended"}[_where]))(_edge(_doc, _where))


# ---------------------------------------------------------------------------------- ad-hoc type guesser
def _adhoc(prefix, n, suffix=""):
    def body(*cs):
        from chx.shim import shim
        from harness.shims import ADHOC_SHIMS

        doc = prefix + S(cs) + suffix
        with shim(_pu, **ADHOC_SHIMS):
            return fueled(len(doc), lambda: _pu.parse_adhoc_doc_for_typ(doc, "a", False))

    body.__name__ = "adhoc_n%d" % n
    return body


for _pre, _suf, _tag in (("", "", "raw"), ("x or ", ".", "or"), ("List of ", "", "of"), ("'a', ", " or 'b'", "lit")):
    for _n, _tier, _T in ((1, "quick", 60), (2, "quick", 240), (3, "thorough", 1500)):
        ob("C11", "adhoc.%s.n%d" % (_tag, _n), {"c%d" % i: CP for i in range(_n)}, tier=_tier, T=_T,
           funcs=["cdd.docstring.utils.parse_utils.parse_adhoc_doc_for_typ",
                  "cdd.docstring.utils.parse_utils._union_literal_from_sentence_phase0",
                  "cdd.docstring.utils.parse_utils._parse_adhoc_doc_for_typ_phase0"],
           assumes=[ADHOC_SHIMS_DOC],
           bound="description %r + ANY %d code points + %r" % (_pre, _n, _suf))(_adhoc(_pre, _n, _suf))


# ---------------------------------------------------------------------------------- damaged TYPE text
#: finite alphabet for holes inside a type: CPython's parser (ast.parse inside needs_quoting / ast_parse_fix) is a C boundary
#: that realises the text, so the hole ranges over the characters that matter to bracket / quote / separator handling
TSIGMA = "][)(,.|'\" *aZ0_-:`\n"
TYPES = ("int", "Optional[int]", "List[int]", "Union[int, str]")


def _tpert(t, pos, c0, c1):
    """the type `t` with 1-2 characters of TSIGMA inserted at `pos` (left / middle / right), or with its ends cut (c1 == len(TSIGMA))"""
    h = TSIGMA[0]
    for j in range(1, len(TSIGMA)):
        if c0 == j:
            h = TSIGMA[j]
    g = ""
    for j in range(len(TSIGMA)):
        if c1 == j:
            g = TSIGMA[j]
    h = h + g
    if pos == 0:
        return h + t
    if pos == 1:
        return t[:len(t) // 2] + h + t[len(t) // 2:]
    if pos == 2:
        return t + h
    if pos == 3:
        return t[1:] + h  # cut on the left
    return h + t[:-1]  # cut on the right


def _typehole_parse(t):
    def body(style, pos, c0, c1, dflt):
        import cdd.shared.docstring_parsers as dp

        ty = _tpert(t, pos, c0, c1)
        tail = (". Defaults to 5" if dflt else "")
        d = ":param a: the a%s\n:type a: ```%s```\n" % (tail, "%s")
        if style == 1:
            d = "Head.\n\nArgs:\n  a (%s): the a" + tail + "\n"
        if style == 2:
            d = "Head.\n\nParameters\n----------\na : %s\n    the a" + tail + "\n"
        i = d.index("%s")
        d = d[:i] + ty + d[i + 2:]
        from crosshair.tracers import NoTracing

        with NoTracing():  # solver-enumerated: the text is concrete on every path (finite alphabet), the parser runs untraced
            d = str(d)
            for edd in (False, True):
                r = fueled(len(d), lambda: dp.parse_docstring(d, emit_default_doc=edd))
                if r:
                    return r
        return ""

    return body


def _typehole_emit(t):
    def body(fmt, pos, c0, c1, dkind):
        from harness.c10 import HIST_FORMATS, _hist_convert, _pick

        ty = _tpert(t, pos, c0, c1)
        p = {"typ": ty, "doc": "the a"}
        if dkind == 1:
            p["default"] = 5
        elif dkind == 2:
            p["default"] = "five"
        f = _pick(HIST_FORMATS, fmt)
        from crosshair.tracers import NoTracing

        with NoTracing():
            p["typ"] = str(ty)
            ir = {"name": "C", "doc": "Header line.", "type": "static", "params": OrderedDict((("id", {"typ": "int", "doc": "[PK] the id"}), ("a", p))), "returns": None}
            return fueled(len(ty) + 64, lambda: _hist_convert(f, ir), ok_exc=(Exception,))

    return body


for _t in TYPES:
    _tag = "".join(ch for ch in _t if ch.isalnum())
    for _tier, _c1 in (("quick", R(len(TSIGMA), len(TSIGMA))), ("thorough", R(0, len(TSIGMA) - 1))):
        _sfx = "" if _tier == "quick" else ".two"
        _nh = "1 character" if _tier == "quick" else "2 characters"
        ob("C11", "typehole.parse.%s%s" % (_tag, _sfx), {"style": R(0, 2), "pos": R(0, 4), "c0": R(0, len(TSIGMA) - 1), "c1": _c1, "dflt": BOOL}, tier=_tier,
           T=1500, tpath=60, funcs=["cdd.shared.docstring_parsers.parse_docstring", "cdd.shared.defaults_utils.needs_quoting", "cdd.shared.defaults_utils.ast_parse_fix",
                                    "cdd.shared.defaults_utils.extract_default"],
           assumes=["SOLVER-ENUMERATED over a finite alphabet: once a path has fixed the hole the parser runs untraced, fuel-instrumented"],
           bound="ReST / Google / NumPy docstring whose parameter type is %r with %s of %r inserted on the left / in the middle / on the right or replacing its first / "
                 "last character, with and without 'Defaults to 5' (the default is what makes the parser inspect the type)" % (_t, _nh, TSIGMA))(_typehole_parse(_t))
        ob("C11", "typehole.emit.%s%s" % (_tag, _sfx), {"fmt": R(0, 8), "pos": R(0, 4), "c0": R(0, len(TSIGMA) - 1), "c1": _c1, "dkind": R(0, 2)}, tier=_tier,
           T=1500, tpath=60, funcs=["cdd.class_.emit.class_", "cdd.function.emit.function", "cdd.argparse_function.emit.argparse_function", "cdd.pydantic.emit.pydantic",
                                    "cdd.json_schema.emit.json_schema", "cdd.docstring.emit.docstring", "cdd.sqlalchemy.emit.*", "cdd.shared.ast_utils.param2ast",
                                    "cdd.shared.defaults_utils.needs_quoting", "cdd.shared.defaults_utils.ast_parse_fix"],
           assumes=["SOLVER-ENUMERATED over a finite alphabet: once a path has fixed the hole the emitter and parser run untraced, fuel-instrumented"],
           bound="emit (then parse back) into each of 9 formats an IR whose parameter type is %r damaged the same way (%s), with no / int / str default" % (_t, _nh))(_typehole_emit(_t))


# work.*: "time proportional to the size of the input" as a count of function ACTIVATIONS in the doctrans modules against the number of input nodes ------------
import types as _types  # noqa: E402

WORK = {"n": 0}


def _count_calls(mod):
    """wrap every function and method defined in `mod` with an activation counter (idempotent)"""
    def wrap(fn):
        if getattr(fn, "__chx_counted__", False):
            return fn

        def counted(*a, **kw):
            WORK["n"] += 1
            return fn(*a, **kw)

        counted.__chx_counted__ = True
        counted.__name__ = getattr(fn, "__name__", "f")
        counted.__wrapped__ = fn
        return counted

    for name, obj in list(vars(mod).items()):
        if isinstance(obj, _types.FunctionType) and obj.__module__ == mod.__name__:
            setattr(mod, name, wrap(obj))
        elif isinstance(obj, type) and obj.__module__ == mod.__name__:
            for mname, meth in list(vars(obj).items()):
                if isinstance(meth, _types.FunctionType):
                    setattr(obj, mname, wrap(meth))


def nested_module(depth, width):
    """`width` top-level functions, the first one containing `depth`-1 further levels of nested, documented functions"""
    s = ""
    for i in range(depth):
        ind = "    " * i
        s += ind + "def f%d(a%d=1):\n" % (i, i) + ind + '    """\n' + ind + "    Doc %d.\n\n" % i + ind + "    :param a%d: the a\n" % i + ind + '    """\n'
    s += "    " * depth + "return 1\n"
    for i in range(depth - 1, 0, -1):
        s += "    " * i + "return f%d()\n" % i
    for j in range(width):
        s += "\n\ndef g%d(b=2):\n    \"\"\"\n    G doc.\n\n    :param b: the b\n    \"\"\"\n    return b\n" % j
    return s


_WROOT = [None]
_WN = [0]


def doctrans_work(depth, width, style, type_annotations, times=1):
    import atexit
    import contextlib
    import io
    import shutil
    import tempfile

    import cdd.compound.doctrans_utils as dtu
    import cdd.shared.ast_cst_utils as acu
    from cdd.compound.doctrans import doctrans

    _count_calls(dtu)
    _count_calls(acu)
    if _WROOT[0] is None:
        _WROOT[0] = tempfile.mkdtemp(prefix="chx_c11_")
        atexit.register(shutil.rmtree, _WROOT[0], True)
    _WN[0] += 1
    fn = os.path.join(_WROOT[0], "m%d.py" % _WN[0])
    src = nested_module(depth, width)
    with open(fn, "wt") as f:
        f.write(src)
    fmt = ("rest", "google", "numpydoc")[0]
    for k in (1, 2):
        if style == k:
            fmt = ("rest", "google", "numpydoc")[k]
    try:
        for t in range(times):
            with open(fn, "rt") as f:
                size = sum(1 for _ in ast.walk(ast.parse(f.read())))
            WORK["n"] = 0
            with contextlib.redirect_stdout(io.StringIO()), contextlib.redirect_stderr(io.StringIO()):
                try:
                    doctrans(filename=fn, docstring_format=fmt, type_annotations=type_annotations, no_word_wrap=True)
                except Exception:
                    pass
            if WORK["n"] > WORK_FACTOR * size + 32:
                return "application %d of doctrans on a module of %d AST nodes (functions nested %d deep) made %d function activations in the doctrans modules: more than %d*size+32" % (
                    t + 1, size, depth, WORK["n"], WORK_FACTOR)
    finally:
        if os.path.exists(fn):
            os.remove(fn)
    return ""


WORK_FACTOR = 2


def doctrans_work_replay(depth, width, style, type_annotations, times=1):
    return doctrans_work(depth, width, style, type_annotations, times)


import os  # noqa: E402

for _st in range(3):
    ob("C11", "work.doctrans.nest.%s" % ("rest", "google", "numpydoc")[_st], {"depth": R(1, 7), "width": R(0, 1), "style": R(_st, _st), "type_annotations": BOOL, "times": R(1, 1)}, enum=True, T=1500, tpath=120,
       funcs=["cdd.compound.doctrans.doctrans", "cdd.compound.doctrans_utils.DocTrans", "cdd.compound.doctrans_utils.doctransify_cst", "cdd.shared.ast_cst_utils.*"],
       assumes=["work measure: activations of the functions and methods defined in cdd.compound.doctrans_utils and cdd.shared.ast_cst_utils (counting wrappers installed at check time); "
                "'proportional to the size of the input' is asserted as activations <= %d * (AST nodes of the input) + 32 (the unchanged tree needs < 1 per node)" % WORK_FACTOR],
       bound="doctrans on generated modules: documented functions nested 1..7 deep plus 0..1 sibling functions, target style %s, --type-annotations on/off (solver-enumerated); "
             "thorough: applied 2..3 times to its own output" % ("rest", "google", "numpydoc")[_st])(doctrans_work)
ob("C11", "work.doctrans.nest.again", {"depth": R(1, 7), "width": R(0, 1), "style": R(0, 2), "type_annotations": BOOL, "times": R(2, 3)}, enum=True, T=3000, tpath=200, tier="thorough",
   funcs=["cdd.compound.doctrans.doctrans"], bound="as work.doctrans.nest, doctrans applied 2..3 times to its own output")(doctrans_work)


# time.*: code that runs inside C (regular expressions) cannot be counted by the fuel / activation counters: wall-clock budget in a fresh interpreter -----------------
def blank_runs(entry, word, k, nl):
    """a description in which a default-ish word is followed by a run of `k` blanks (or a line break and a hanging indent of k blanks) and then ordinary prose"""
    w = ("defaults", "default value", "(defaults", "Defaults", "default")[word]
    gap = ("\n" + " " * k) if nl else (" " * k)
    doc = "step size; when None the optimiser " + w + gap + "are used instead"
    if entry == 0:
        from cdd.shared.defaults_utils import extract_default

        extract_default(doc, emit_default_doc=False)
    elif entry == 1:
        from cdd.shared.docstring_parsers import parse_docstring

        parse_docstring("Header.\n\n:param learning_rate: " + doc + "\n:type learning_rate: ```float```\n")
    else:
        import cdd.docstring.emit
        from collections import OrderedDict

        cdd.docstring.emit.docstring({"name": "f", "doc": "Header.", "type": "static", "params": OrderedDict((("lr", {"typ": "float", "doc": doc}),)), "returns": None}, emit_default_doc=False)
    return ""


TIME_BUDGET = 20
for _entry, _en in enumerate(("extract_default", "parse_docstring", "emit_docstring")):
    ob("C11", "time.blank_runs.%s" % _en, {"entry": R(_entry, _entry), "word": R(0, 4), "k": R(0, 48), "nl": BOOL}, enum=True, isolated=TIME_BUDGET, T=3000,
       tier="quick" if _entry == 1 else "thorough",
       funcs=["cdd.shared.defaults_utils.extract_default", "cdd.shared.docstring_parsers.parse_docstring", "cdd.docstring.emit.docstring"],
       assumes=["timing oracle: each path runs the call in a fresh interpreter under a wall-clock budget of %d s (interpreter start-up included; the unchanged tree needs < 1 s); this is the only "
                "way to see work done inside C code such as the `re` module" % TIME_BUDGET],
       bound="%s on a description in which one of 'defaults' / 'default value' / '(defaults' / 'Defaults' / 'default' is followed by a run of 0..48 blanks (or a line break and a hanging indent of "
             "0..48 blanks) and then prose (solver-enumerated): the call returns within %d s" % (_en, TIME_BUDGET))(blank_runs)
