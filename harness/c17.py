"""C17 - analysed input is never executed (DESIGN.md section 6, C17)."""
import ast
import os
import random
from collections import OrderedDict

from chx.monitors import monitored, unsafe_char
from chx.ob import BOOL, CP, PR, R, U, ob
from chx.shim import shim
from harness.shims import ADHOC_SHIMS, ADHOC_SHIMS_DOC
from harness.skeletons import SKELETONS

SEED = int(os.environ.get("VERIF_SEED", "0") or 0)
STUB_DOC = ("stubs: eval/exec/compile/__import__/import_module/open(for write)/system/Popen shadowed in the globals of cdd.shared.docstring_parsers, "
            "cdd.docstring.utils.parse_utils, cdd.shared.defaults_utils, cdd.docstring.utils.emit_utils, cdd.shared.pure_utils, cdd.shared.ast_utils; "
            "the eval stub does not evaluate: it records its argument and returns or raises NameError per a solver boolean")
FUNCS = ["cdd.shared.docstring_parsers._set_name_and_type", "cdd.shared.docstring_parsers.__set_name_and_type_handle_doc_in_param",
         "cdd.docstring.utils.parse_utils.parse_adhoc_doc_for_typ", "cdd.docstring.utils.parse_utils._parse_adhoc_doc_for_typ_phase0",
         "cdd.docstring.utils.parse_utils._union_literal_from_sentence", "cdd.shared.defaults_utils.extract_default",
         "cdd.shared.defaults_utils._parse_out_default_and_doc", "cdd.shared.docstring_parsers._infer_default"]


def _mods():
    import cdd.docstring.utils.emit_utils as eu
    import cdd.docstring.utils.parse_utils as pu
    import cdd.shared.ast_utils as au
    import cdd.shared.defaults_utils as du
    import cdd.shared.docstring_parsers as dp
    import cdd.shared.pure_utils as pure

    return dp, pu, du, eu, pure, au


def S(cs):
    s = ""
    for c in cs:
        s = s + chr(c)
    return s


def verdict(mon):
    if mon.others:
        return "code-execution / file-write sink reached: %r" % (mon.others[0],)
    for src in mon.evals:
        if not isinstance(src, str):
            return "eval called with a non-string"
        ch = unsafe_char(src)
        if ch is not None:
            return "eval argument %r contains %r, outside the safe grammar" % (src, ch)
    return ""


def run_set_name_and_type(doc, e0, e1, full=False):
    """full=False: the function that holds the eval probe, directly; full=True: through _set_name_and_type (extract_default first)"""
    import cdd.docstring.utils.parse_utils as pu
    import cdd.shared.docstring_parsers as dp

    with monitored(_mods(), (e0, e1)) as mon, shim(pu, **ADHOC_SHIMS):
        try:
            if full:
                dp._set_name_and_type(("a", {"doc": doc}), infer_type=False, word_wrap=True)
            else:
                getattr(dp, "__set_name_and_type_handle_doc_in_param")({"doc": doc}, "a", False, True)
        except Exception:
            pass
    return verdict(mon)


TEMPLATES = {  # (before, between, after) the two holes - concatenated, never %-formatted (formatting realises)
    "or": ("", " or ", "."), "of": ("List of ", "", ""), "dflt": ("x. Defaults to ", "", ""), "raw": ("", "", ""),
    "lit": ("'", "', or '", "'"), "dot": ("a.", "", " b"), "tick": ("`", "` or `", "`"), "slash": ("a ", "/", " b."),
}


def _adhoc(tag, n, holes):
    pre, mid, post = TEMPLATES[tag]

    def body(e0, e1, *cs):
        if holes == 1:
            doc = pre + "x" + mid + S(cs) + post
        else:
            k = len(cs) // 2
            doc = pre + S(cs[:k]) + mid + S(cs[k:]) + post
        return run_set_name_and_type(doc, e0, e1, full=(tag == "dflt"))

    body.__name__ = "adhoc_%s_%d_%d" % (tag, n, holes)
    return body


for _tag in TEMPLATES:
    if _tag == "dflt":
        continue  # default text is realised by literal_eval/float: finite alphabet below
    for _h, _n, _tier, _T in ((1, 1, "quick", 150), (1, 2, "quick", 400), (2, 1, "thorough", 900), (1, 3, "thorough", 1800), (2, 2, "thorough", 1800)):
        if _n == 2 and _tag in ("or", "slash"):
            _tier, _T = "thorough", 1500
        ob("C17", "adhoc.%s.h%d.n%d" % (_tag, _h, _n), dict({"e0": BOOL, "e1": BOOL}, **{"c%d" % i: CP for i in range(_h * _n)}), tier=_tier, T=_T,
           funcs=FUNCS, assumes=[STUB_DOC, ADHOC_SHIMS_DOC],
           bound="parameter description %r + %s + %r + HOLE + %r, each hole = ANY %d code point(s); eval outcome nondeterministic" % (
               TEMPLATES[_tag][0], "HOLE" if _h == 2 else "'x'", TEMPLATES[_tag][1], TEMPLATES[_tag][2], _n))(_adhoc(_tag, _n, _h))


# a module-QUALIFIED candidate type: the hole is the module part of a dotted name (lower-case letters: what a module name can be) -------------------------
def _qualified(n):
    def body(e0, e1, *cs):
        return run_set_name_and_type("`" + S(cs) + ".Handler` or `None`", e0, e1)

    body.__name__ = "adhoc_qualified_%d" % n
    return body


for _n, _tier, _T in ((1, "quick", 300), (2, "thorough", 1500)):
    ob("C17", "adhoc.qualified.n%d" % _n, dict({"e0": BOOL, "e1": BOOL}, **{"c%d" % i: R(97, 122) for i in range(_n)}), tier=_tier, T=_T, funcs=FUNCS, assumes=[STUB_DOC, ADHOC_SHIMS_DOC],
       bound="parameter description '`' + MODULE + '.Handler` or `None`' with MODULE = ANY %d lower-case letter(s): whatever the eval probe answers, no module named by the docstring is imported" % _n,
       )(_qualified(_n))


SIGMA17 = "()_.,;:'\"\\ \ta Z0|-*=`[]"


def _sig(i):
    ch = SIGMA17[0]
    for k in range(1, len(SIGMA17)):
        if i == k:
            ch = SIGMA17[k]
    return ch


def _dflt(n, typ):
    def body(e0, e1, *idx):
        import cdd.docstring.utils.parse_utils as pu
        import cdd.shared.docstring_parsers as dp

        text = ""
        for i in idx:
            text = text + _sig(i)
        p = {"doc": "x. Defaults to " + text}
        if typ:
            p["typ"] = typ
        with monitored(_mods(), (e0, e1)) as mon, shim(pu, **ADHOC_SHIMS):
            try:
                from cdd.docstring.utils.emit_utils import interpolate_defaults

                dp._set_name_and_type(interpolate_defaults(("a", p)), infer_type=False, word_wrap=True)
            except Exception:
                pass
        return verdict(mon)

    body.__name__ = "dflt_%d_%s" % (n, typ)
    return body


for _typ in (None, "str", "int"):
    for _n, _tier, _T in ((1, "quick", 150), (2, "quick", 400), (3, "thorough", 1800)):
        ob("C17", "dflt.%s.n%d" % (_typ or "untyped", _n), dict({"e0": BOOL, "e1": BOOL}, **{"i%d" % k: R(0, len(SIGMA17) - 1) for k in range(_n)}),
           tier=_tier, T=_T, funcs=FUNCS + ["cdd.docstring.utils.emit_utils.interpolate_defaults"], assumes=[STUB_DOC, ADHOC_SHIMS_DOC],
           bound="description 'x. Defaults to ' + %d characters from the finite alphabet %r (the default text is realised by literal_eval/float, so the "
                 "solver enumerates the alphabet and certifies exhaustion), declared type %s" % (_n, SIGMA17, _typ))(_dflt(_n, _typ))


def _skel(style, doc, pos):
    def body(e0, e1, c):
        import cdd.docstring.utils.parse_utils as pu
        from cdd.shared.docstring_parsers import parse_docstring

        d = doc[:pos] + chr(c) + doc[pos:]
        with monitored(_mods(), (e0, e1)) as mon, shim(pu, **ADHOC_SHIMS):
            try:
                parse_docstring(d)
            except Exception:
                pass
        return verdict(mon)

    body.__name__ = "skel_%s_%d" % (style, pos)
    return body


_ALL = [(st, d, p) for st, d in SKELETONS.items() for p in range(len(d) + 1)]
_Q = set(random.Random(SEED).sample(range(len(_ALL)), 24))
for _i, (_st, _d, _p) in enumerate(_ALL):
    ob("C17", "skel.%s.ins%03d" % (_st, _p), {"e0": BOOL, "e1": BOOL, "c": CP}, tier="quick" if _i in _Q else "thorough", T=300,
       funcs=["cdd.shared.docstring_parsers.parse_docstring"] + FUNCS, assumes=[STUB_DOC, ADHOC_SHIMS_DOC],
       bound="%s skeleton with ANY code point inserted at offset %d; eval outcome nondeterministic" % (_st, _p))(_skel(_st, _d, _p))


# import.*: looking up where an analysed module lives must not import it --------------------------------------------------------------
import atexit  # noqa: E402
import shutil  # noqa: E402
import sys  # noqa: E402
import tempfile  # noqa: E402

_ROOT = tempfile.mkdtemp(prefix="chx_c17_")
atexit.register(shutil.rmtree, _ROOT, True)
SPKG = "shopdb%d" % os.getpid()
os.makedirs(os.path.join(_ROOT, SPKG, "sub"))
for _rel, _txt in (("__init__.py", ""), ("sub/__init__.py", ""),
                   ("element.py", "import os\nopen(os.path.join(os.path.dirname(__file__), 'SENTINEL'), 'w').close()\nclass Element(object):\n    pass\n"),
                   ("sub/leaf.py", "import os\nopen(os.path.join(os.path.dirname(os.path.dirname(__file__)), 'SENTINEL'), 'w').close()\nLEAF = 1\n"),
                   ("node.py", "from %s.element import Element\n\nclass Node(object):\n    e: Element = None\n" % SPKG)):
    with open(os.path.join(_ROOT, SPKG, _rel), "w") as _f:
        _f.write(_txt)
sys.path.insert(0, _ROOT)


def lookup_does_not_import(which, with_sub, missing):
    from cdd.shared.pure_utils import find_module_filepath

    sentinel = os.path.join(_ROOT, SPKG, "SENTINEL")
    if os.path.exists(sentinel):
        os.remove(sentinel)
    for k in [k for k in sys.modules if k.startswith(SPKG + ".")]:
        del sys.modules[k]
    mod, sub = (SPKG, "element") if which == 0 else ((SPKG + ".sub", "leaf") if which == 1 else (SPKG + ".element", "Element"))
    if missing:
        sub = "nonexistent"
    if which == 2 and not with_sub:
        return ""  # a symbol is only ever passed as the second argument (from `from m import Symbol`), never inside a dotted module path
    try:
        if with_sub:
            find_module_filepath(mod, sub)
        else:
            find_module_filepath(mod + "." + sub)
    except Exception:
        pass
    loaded = [k for k in sys.modules if k.startswith(SPKG + ".") and k.rsplit(".", 1)[-1] in ("element", "leaf")]
    ran = os.path.exists(sentinel)
    if ran:
        os.remove(sentinel)
    if ran or loaded:
        return "looking up the file of an analysed module executed it (sentinel written: %s, sys.modules: %r)" % (ran, loaded)
    return ""


ob("C17", "import.find_module_filepath", {"which": R(0, 2), "with_sub": BOOL, "missing": BOOL}, T=120,
   funcs=["cdd.shared.pure_utils.find_module_filepath"],
   bound="find_module_filepath on a scratch package whose modules write a sentinel file when executed: top-level / nested module / (module, SYMBOL name as taken from `from m import Symbol`), (module, submodule) or dotted form, "
         "existing or missing (solver-enumerated): the looked-up module's code does not run and it does not enter sys.modules")(lookup_does_not_import)


# code.*: defaults / attribute values of the ANALYSED CODE are expressions (calls, dunder chains, arithmetic, __import__): the code parsers must treat them as data ----
def _all_cdd_modules():
    import cdd.argparse_function.parse  # noqa: F401
    import cdd.class_.parse  # noqa: F401
    import cdd.function.parse  # noqa: F401
    import cdd.pydantic.parse  # noqa: F401
    import cdd.sqlalchemy.emit  # noqa: F401  (import order: see C18 in DESIGN.md)
    import cdd.sqlalchemy.parse  # noqa: F401

    return tuple(m for k, m in sorted(sys.modules.items()) if k.startswith("cdd.") and ".tests" not in k and m is not None
                 and k not in ("cdd.compound.sync_properties", "cdd.compound.gen"))


def _expr(shape, i, j, c):
    """an adversarial expression AST with solver-chosen constants / one symbolic identifier character; all harmless when really evaluated"""
    K = ast.Constant
    name = "f" + chr(c)
    if shape == 0:
        return ast.BinOp(left=K(value=i), op=ast.Mult(), right=K(value=j))  # constant arithmetic: tempting to fold
    if shape == 1:
        return ast.Call(func=ast.Name(id=name, ctx=ast.Load()), args=[K(value=i)], keywords=[])
    if shape == 2:  # ().__class__.__base__.__subclasses__()
        chain = ast.Attribute(value=ast.Attribute(value=ast.Attribute(value=ast.Tuple(elts=[], ctx=ast.Load()), attr="__class__", ctx=ast.Load()), attr="__base__", ctx=ast.Load()),
                              attr="__subclasses__", ctx=ast.Load())
        return ast.Call(func=chain, args=[], keywords=[])
    if shape == 3:
        return ast.Call(func=ast.Name(id="__import__", ctx=ast.Load()), args=[K(value="o" + chr(c))], keywords=[])
    if shape == 4:
        return ast.Subscript(value=ast.Dict(keys=[K(value=i)], values=[K(value=j)]), slice=K(value=i), ctx=ast.Load())
    if shape == 5:
        return ast.BinOp(left=K(value=i), op=ast.Pow(), right=ast.UnaryOp(op=ast.USub(), operand=K(value=j)))
    if shape == 6:
        return ast.Call(func=ast.Attribute(value=K(value="a" + chr(c)), attr="upper", ctx=ast.Load()), args=[], keywords=[])
    return ast.IfExp(test=K(value=i), body=K(value=j), orelse=ast.Call(func=ast.Name(id=name, ctx=ast.Load()), args=[], keywords=[]))


def _code(kind):
    def body(e0, e1, shape, i, j, c):
        import cdd.docstring.utils.parse_utils as pu

        doc = ast.Expr(value=ast.Constant(value="\n    Doc.\n\n    :param a: the a\n\n    :param b: the b\n    "))
        if kind == "function":
            import cdd.function.parse as P

            node = ast.FunctionDef(name="f", args=ast.arguments(posonlyargs=[], args=[ast.arg(arg="a", annotation=None), ast.arg(arg="b", annotation=ast.Name(id="int", ctx=ast.Load()))],
                                                                 vararg=None, kwonlyargs=[], kw_defaults=[], kwarg=None, defaults=[_expr(shape, i, j, c), _expr(shape, j, i, c)]),
                                   body=[doc, ast.Return(value=ast.Constant(value=None))], decorator_list=[], returns=None, lineno=1, col_offset=0)
            fn = P.function
        else:
            import cdd.class_.parse as P

            cdoc = ast.Expr(value=ast.Constant(value="\n    Doc.\n\n    :cvar a: the a\n\n    :cvar b: the b\n    "))
            node = ast.ClassDef(name="K", bases=[], keywords=[], decorator_list=[], lineno=1, col_offset=0,
                                body=[cdoc, ast.AnnAssign(target=ast.Name(id="a", ctx=ast.Store()), annotation=ast.Name(id="int", ctx=ast.Load()), value=_expr(shape, i, j, c), simple=1),
                                      ast.Assign(targets=[ast.Name(id="b", ctx=ast.Store())], value=_expr(shape, j, i, c), lineno=3)])
            fn = P.class_
        ast.fix_missing_locations(node)
        with monitored(_all_cdd_modules(), (e0, e1)) as mon, shim(pu, **ADHOC_SHIMS):
            try:
                fn(node)
            except Exception:
                pass
        return verdict(mon)

    body.__name__ = "code_" + kind
    return body


for _kind in ("function", "class"):
    ob("C17", "code.%s" % _kind, {"e0": BOOL, "e1": BOOL, "shape": R(0, 7), "i": R(-2, 60), "j": R(0, 3), "c": R(97, 122)}, T=600, tpath=60,
       funcs=["cdd.%s.parse.%s" % (("function", "function") if _kind == "function" else ("class_", "class_")), "cdd.shared.docstring_parsers._infer_default",
              "cdd.shared.parse.utils.parser_utils.ir_merge", "cdd.shared.ast_utils.get_value"],
       assumes=[STUB_DOC, ADHOC_SHIMS_DOC, "eval/exec/compile/__import__/import_module/open-for-write are shadowed in EVERY loaded cdd module except sync_properties and gen (the documented --input-eval / gen exceptions)"],
       bound="a %s whose two defaults/values are expression ASTs of 8 shapes (constant arithmetic i*j and i**-j, call of a name, ().__class__.__base__.__subclasses__(), "
             "__import__('o?'), dict subscript, method call on a str constant, conditional with a call) with solver-chosen constants i in -2..60, j in 0..3 and one symbolic identifier letter: "
             "no sink is reached and nothing outside the safe grammar reaches eval" % _kind)(_code(_kind))


# code.sync_property: WITHOUT --input-eval the input module of sync_properties is data, also when the static lookup of the input parameter fails ----------------------
SYNC_INPUTS = ("kinds, limit = ('a', 'b'), 5\n", "if True:\n    kinds = ('a', 'b')\n", "import os as kinds\n", "for kinds in ((1, 2),):\n    pass\n", "kinds: tuple = ('a', 'b')\n",
               "class C(object):\n    kinds: int = 5\n", "def kinds():\n    return 1\n", "other = 1\n")
SYNC_PARAMS = ("kinds", "C.kinds", "missing", "limit")


def sync_no_eval(src, par, wrap):
    import cdd.compound.sync_properties as sp
    from cdd.shared.source_transformer import ast_parse

    in_src = SYNC_INPUTS[src] + "SENTINEL = [].append(1)\n"
    out_src = "class K(object):\n    k: str = 's'\n"
    mods = tuple(m for m in _all_cdd_modules()) + (sp,)
    with monitored(mods, ()) as mon:
        try:
            sp.sync_property(False, SYNC_PARAMS[par], ast_parse(in_src, filename="<in>"), "<in>", "K.k", "Optional[{output_param}]" if wrap else None,
                             ast_parse(out_src, filename="<out>"))
        except Exception:
            pass
    if mon.evals:
        return "eval reached although --input-eval was not given (input parameter %r, input module %r)" % (SYNC_PARAMS[par], SYNC_INPUTS[src])
    return verdict(mon)


ob("C17", "code.sync_property", {"src": R(0, len(SYNC_INPUTS) - 1), "par": R(0, len(SYNC_PARAMS) - 1), "wrap": BOOL}, enum=True, T=300,
   funcs=["cdd.compound.sync_properties.sync_property", "cdd.shared.ast_utils.find_in_ast"],
   assumes=["eval/exec/compile/__import__/import_module/open-for-write shadowed in every loaded cdd module INCLUDING cdd.compound.sync_properties (its eval is the documented exception only when input_eval is set)"],
   bound="sync_property with input_eval=False on input modules %r and input parameter among %r (found statically or not), wrap on/off (solver-enumerated): no eval / exec / compile / import sink "
         "is reached, whether the lookup succeeds or the request is refused" % (SYNC_INPUTS, SYNC_PARAMS))(sync_no_eval)
