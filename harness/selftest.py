"""Regression checks of the CrossHair patches in chx/chfix.py against their minimal reproducers: `./check SELFTEST`.
Each obligation must come back `confirmed`; without the corresponding patch it comes back with a (false) counterexample,
an engine error or `unknown`."""
from chx.ob import BOOL, CP, PR, R, U, ob


def p1_concat_eq(a):
    s = chr(a)
    return "" if (s + '"')[:-1] == s else "(s + '\"')[:-1] != s  (SequenceConcatenation.__eq__)"


ob("SELFTEST", "patch1.seqconcat_eq", {"a": CP}, T=30, bound="every 1-cp string")(p1_concat_eq)


def p2_bounded_tuple(a, b):
    s = chr(a) + chr(b)
    return "" if (s == "Defaults to") is False else "2-cp string equals an 11-char literal"


ob("SELFTEST", "patch2.create_up_to", {"a": CP, "b": CP}, T=30, bound="every 2-cp string compared with a longer literal")(p2_bounded_tuple)

FS = frozenset(("Args:", "Returns:", ":param"))


def p3_frozenset(a, b):
    s = chr(a) + chr(b)
    return "" if (s in FS) is False else "2-cp string found in a frozenset of longer tokens"


ob("SELFTEST", "patch3.frozenset_contains", {"a": CP, "b": CP}, T=30, bound="every 2-cp string")(p3_frozenset)


def p5_operator_contains(a):
    from functools import partial
    from operator import contains

    table = {"int": 1, "str": 2}
    hits = list(filter(partial(contains, table), [chr(a), "int"]))
    return "" if ("int" in hits and (len(hits) == 1 or chr(a) in table)) else "operator.contains over a dict misbehaves"


ob("SELFTEST", "patch5.operator_contains", {"a": CP}, T=30, bound="every 1-cp string")(p5_operator_contains)


def p8_no_shortcircuit(k):
    r = repr("typing")
    s = "<name={!r}>".format("typing")
    return "" if (r == "'typing'" and s == "<name='typing'>" and k == k) else "repr()/format() of a concrete string returned something else"


ob("SELFTEST", "patch8.no_shortcircuit", {"k": R(0, 100)}, T=30, bound="repr/format of concrete strings in 100 runs")(p8_no_shortcircuit)


import functools  # noqa: E402


@functools.lru_cache(maxsize=8)
def _cached_list(s):
    return [s]


def p9_cache_modelled(a):
    first = _cached_list(chr(a))
    first.append("mutated")
    second = _cached_list(chr(a))
    return "" if second is first and len(second) == 2 else "lru_cache is skipped: the second call did not return the cached (mutated) object"


ob("SELFTEST", "patch9.lru_cache_modelled", {"a": CP}, T=30, bound="a cached function returning a mutable list, symbolic argument")(p9_cache_modelled)
