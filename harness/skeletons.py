"""Concrete docstring skeletons shared by the docstring harnesses (C01, C11, C14, C15, C17)."""

REST = (
    "Header line.\n\nMore header.\n\n"
    ":param a: desc a\n:type a: ```int```\n\n"
    ":return: ret\n:rtype: ```str```\n\nFooter."
)
GOOGLE = (
    "Header line.\n\nMore header.\n\n"
    "Args:\n  a (int): desc a\n\n"
    "Returns:\n  str:\n   ret\n"
)
NUMPY = (
    "Header line.\n\nMore header.\n\n"
    "Parameters\n----------\na : int\n    desc a\n\n"
    "Returns\n-------\nstr\n    ret\n"
)
SKELETONS = {"rest": REST, "google": GOOGLE, "numpydoc": NUMPY}

# further shapes named by the properties: no return entry + footer, footer with notes/doctest lines, sections without bodies
REST_NORET = "Header line.\n\n:param a: desc a\n:type a: ```int```\n\nFooterprose notes.\n\n>>> f(1)\n2"
REST_DEFAULT_NORET = "Header line.\n\n:param a: desc a. Defaults to 5\n:type a: ```int```\n\nFooterprose notes."
GOOGLE_FOOT = "Header line.\n\nArgs:\n  a (int): desc a\n\nFooterprose notes.\n"
NUMPY_FOOT = "Header line.\n\nParameters\n----------\na : int\n    desc a\n\nFooterprose notes.\n"
GOOGLE_STAR = "H.\n\nArgs:\n  *args: the args\n  **options: the opts\n"
NUMPY_STAR = "H.\n\nParameters\n----------\n**options : dict\n    the opts\n"
# the footer STARTS with lines indented deeper than the parameter names (an indented example block), last parameter documented with a default and no closing period
NUMPY_FOOT_EX = 'Header line.\n\nParameters\n----------\na : int\n    desc a\nb : str\n    desc b. Defaults to "x"\n\n    >>> Footerprose(1, "y")\n    True\n\nFooterprose notes.\n'
GOOGLE_FOOT_EX = 'Header line.\n\nArgs:\n  a (int): desc a\n  b (str): desc b. Defaults to "x"\n\n    >>> Footerprose(1, "y")\n    True\n\nFooterprose notes.\n'
REST_FOOT_EX = 'Header line.\n\n:param a: desc a\n:type a: ```int```\n\n:param b: desc b. Defaults to "x"\n:type b: ```str```\n\n    >>> Footerprose(1, "y")\n    True\n\nFooterprose notes.\n'
EXTRA_SKELETONS = {"google_star": GOOGLE_STAR, "numpy_star": NUMPY_STAR, "rest_noret": REST_NORET, "rest_default_noret": REST_DEFAULT_NORET, "google_foot": GOOGLE_FOOT, "numpy_foot": NUMPY_FOOT,
                   "numpy_foot_ex": NUMPY_FOOT_EX, "google_foot_ex": GOOGLE_FOOT_EX, "rest_foot_ex": REST_FOOT_EX}
EDGE_SKELETONS = {  # section headers without bodies, blank line right under a NumPy underline, truncated tokens
    "numpy_empty_section": "Header.\n\nParameters\n----------\n",
    "numpy_blank_after_underline": "Header.\n\nParameters\n----------\n\na : int\n    desc a\n",
    "numpy_returns_empty": "Header.\n\nParameters\n----------\na : int\n    desc a\n\nReturns\n-------\n",
    "google_empty_args": "Header.\n\nArgs:\n",
    "google_returns_empty": "Header.\n\nArgs:\n  a (int): desc a\n\nReturns:\n",
    "rest_param_only_token": "Header.\n\n:param",
    "rest_empty_fields": "Header.\n\n:param a:\n:type a:\n:return:\n:rtype:",
    "blank_first_line": "\n   \nHeader.\n\n:param a: desc a\n",
}


def indented(doc, n):
    """the docstring as it sits in source at `n` columns: every line but the first is indented"""
    if n == 0:
        return doc
    pad = " " * n
    lines = doc.split("\n")
    return "\n".join([lines[0]] + [(pad + l) if l else l for l in lines[1:]]) + "\n" + pad


MARK = "\ue000"


def hole_is_name(doc, pos, mode):
    """concrete probe: does a character placed at this hole end up inside a parameter NAME?  Names become dict keys,
    and inserting a symbolic key hashes (realises) it (DESIGN.md 2.2), so such holes range over printable ASCII only."""
    import cdd.class_.parse  # noqa: F401
    from cdd.shared.docstring_parsers import parse_docstring

    d = doc[:pos] + MARK + (doc[pos:] if mode == "ins" else doc[pos + 1:])
    try:
        ir = parse_docstring(d)
    except Exception:
        return False
    return any(MARK in k for k in ir["params"])
