"""Concrete docstring skeletons shared by the docstring harnesses (C01, C11, C14, C15, C17)."""

REST = (
    "Header line.\n\nMore header.\n\n"
    ":param a: desc a\n:type a: ```int```\n\n"
    ":return: ret\n:rtype: ```str```\n\nFooter."
)
GOOGLE = (
    "Header line.\n\nMore header.\n\n"
    "Args:\n  a (int): desc a\n\n"
    "Returns:\n  str:\n   ret\n"
)
NUMPY = (
    "Header line.\n\nMore header.\n\n"
    "Parameters\n----------\na : int\n    desc a\n\n"
    "Returns\n-------\nstr\n    ret\n"
)
SKELETONS = {"rest": REST, "google": GOOGLE, "numpydoc": NUMPY}


def indented(doc, n):
    """the docstring as it sits in source at `n` columns: every line but the first is indented"""
    if n == 0:
        return doc
    pad = " " * n
    lines = doc.split("\n")
    return "\n".join([lines[0]] + [(pad + l) if l else l for l in lines[1:]]) + "\n" + pad


MARK = "\ue000"


def hole_is_name(doc, pos, mode):
    """concrete probe: does a character placed at this hole end up inside a parameter NAME?  Names become dict keys,
    and inserting a symbolic key hashes (realises) it (DESIGN.md 2.2), so such holes range over printable ASCII only."""
    import cdd.class_.parse  # noqa: F401
    from cdd.shared.docstring_parsers import parse_docstring

    d = doc[:pos] + MARK + (doc[pos:] if mode == "ins" else doc[pos + 1:])
    try:
        ir = parse_docstring(d)
    except Exception:
        return False
    return any(MARK in k for k in ir["params"])
