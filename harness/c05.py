"""C05 - SQLAlchemy class / Table round trip and agreement, exactly one primary key (AST level; DESIGN.md section 6, C05)."""
import ast
from collections import OrderedDict
from copy import deepcopy

from chx.domain import entry_equiv
from chx.ob import BOOL, CP, PR, R, U, known_active, ob
from chx.shim import REPLAYING, shim
from harness.shims import ADHOC_SHIMS, ADHOC_SHIMS_DOC

FUNCS = ["cdd.sqlalchemy.emit.sqlalchemy", "cdd.sqlalchemy.emit.sqlalchemy_table", "cdd.sqlalchemy.parse.sqlalchemy", "cdd.sqlalchemy.parse.sqlalchemy_table",
         "cdd.sqlalchemy.utils.emit_utils.param_to_sqlalchemy_column_calls", "cdd.sqlalchemy.utils.emit_utils.ensure_has_primary_key",
         "cdd.sqlalchemy.utils.emit_utils.sqlalchemy_class_to_table", "cdd.sqlalchemy.utils.parse_utils.column_call_to_param",
         "cdd.sqlalchemy.utils.shared_utils.update_args_infer_typ_sqlalchemy"]
ASSUMPTIONS = ["AST level (see C02): the emitted ast object goes straight to the parser; replays go through to_code + ast.parse",
               "columns are compared on name, order, typ, default, description (up to a terminal full stop); the extension key x_typ and the table-level prose are not part of the property"]


def S(cs):
    s = ""
    for c in cs:
        s = s + chr(c)
    return s


def _text(node):
    if REPLAYING():
        import cdd.shared.source_transformer as st

        return ast.parse(st.to_code(node)).body[0]
    return node


def emit_parse(variant, ir, force_pk_id=False):
    import cdd.docstring.utils.parse_utils as pu
    import cdd.sqlalchemy.emit as E
    import cdd.sqlalchemy.parse as P

    ir = deepcopy(ir)
    with shim(pu, **ADHOC_SHIMS):
        if variant == "class":
            ir["name"] = "Config"
            node = E.sqlalchemy(ir, emit_repr=False, class_name="Config", table_name="config_tbl", word_wrap=False, force_pk_id=force_pk_id)
            return node, P.sqlalchemy(_text(node))
        if variant == "table":
            ir["name"] = "config_tbl"
            node = E.sqlalchemy_table(ir, name="config_tbl", word_wrap=False, force_pk_id=force_pk_id)
            return node, P.sqlalchemy_table(_text(node))
        ir["name"] = "Config"
        node = E.sqlalchemy_hybrid(ir, emit_repr=False, emit_create_from_attr=False, class_name="Config", table_name="config_tbl",
                                   word_wrap=False, force_pk_id=force_pk_id)
        return node, P.sqlalchemy_hybrid(_text(node))


def count_pk(node):
    n = 0
    for sub in ast.walk(node):
        if isinstance(sub, ast.keyword) and sub.arg == "primary_key" and isinstance(sub.value, ast.Constant) and sub.value.value is True:
            n += 1
    return n


def cols_equiv(a, b):
    ka, kb = list(a), list(b)
    if len(ka) != len(kb):
        return "number of columns changed: %r -> %r" % (ka, kb)
    for x, y in zip(ka, kb):
        if x != y:
            return "column names/order changed: %r -> %r" % (ka, kb)
    for k in ka:
        d = entry_equiv("column %s" % k, a[k], b[k], types=True, defaults=True, docs=True)
        if d:
            return d
    return ""


def mk(c0, c1, d0, bdef, kind, optpk=False):
    cols = [("id", {"typ": "Optional[int]" if optpk else "int", "doc": "[PK] the id"}),
            ("b", {"typ": "str", "doc": "second " + S((d0,)), "default": S((c0, c1))})]
    if kind == 0:
        cols.append(("c", {"typ": "Optional[float]", "doc": "third col"}))
    elif kind == 1:
        cols.append(("c", {"typ": "Literal['np', 'tf']", "doc": "third col"}))
    elif kind == 2:
        cols.append(("c", {"typ": "bool", "doc": "third col", "default": bdef}))
    elif kind == 3:
        cols.append(("c", {"typ": "dict", "doc": "third col"}))
    else:
        cols.append(("c", {"typ": "Optional[dict]", "doc": "third col"}))
    return {"name": "Config", "doc": "Header line.", "type": "static", "params": OrderedDict(cols), "returns": None}


def _rt(variant):
    def body(c0, c1, d0, bdef, kind, optpk):
        ir = mk(c0, c1, d0, bdef, kind, optpk)
        try:
            node, back = emit_parse(variant, ir)
        except Exception as e:
            return "%s emit->parse raised %s: %s" % (variant, type(e).__name__, e)
        if count_pk(node) != 1:
            return "emission has %d primary keys" % count_pk(node)
        return cols_equiv(ir["params"], back["params"])

    return body


for _v in ("class", "table"):
    ob("C05", "P1.roundtrip.%s" % _v, {"c0": PR, "c1": PR, "d0": PR, "bdef": BOOL, "kind": R(0, 4), "optpk": BOOL}, pre="d0 != 47", T=400, funcs=FUNCS, assumes=[ADHOC_SHIMS_DOC],
       bound="[PK] id:int or Optional[int], b:str with default = ANY 2 printable characters and description 'second '+ANY printable, third column of kind "
             "Optional[float] / Literal['np','tf'] / bool with default / dict / Optional[dict]")(_rt(_v))


# P1.columns: the column kinds of the SQL-representable domain incl. foreign keys, one symbolic description character ------------------------------
E = Ellipsis
COLUMN_CASES = (("int", "[FK(other_tbl.id)] the other", E), ("Optional[int]", "[FK(other_tbl.id)] the other", E), ("str", "[FK(other_tbl.name)] the other", E),
                ("float", "a ratio", 0.5), ("float", "neg", -1.5), ("int", "big", 10 ** 12), ("str", "text", "it's"), ("Optional[str]", "maybe", E),
                ("Literal['a', 'b', 'c']", "choice", "b"), ("Optional[Literal['a', 'b']]", "choice", E), ("bool", "flag", True), ("str", "multi. sentence. doc", E),
                ("complex", "cplx", E), ("bytes", "raw", E), ("datetime", "when", E), ("Optional[bool]", "flag", E), ("int", "zero", 0), ("str", "empty", ""),
                ("str", "none-str", "None"), ("int", "neg", -7), ("Optional[float]", "maybe ratio", E))


def _columns(variant, lo, hi):
    def body(kind, x):
        typ, doc, d = COLUMN_CASES[lo]
        for k in range(lo + 1, hi + 1):
            if kind == k:
                typ, doc, d = COLUMN_CASES[k]
        c = {"typ": typ, "doc": doc + " " + chr(x) + "z"}
        if d is not E:
            c["default"] = d
        ir = {"name": "Config", "doc": "Header line.", "type": "static",
              "params": OrderedDict((("id", {"typ": "int", "doc": "[PK] the id"}), ("c", c), ("last", {"typ": "str", "doc": "the last"}))), "returns": None}
        try:
            node, back = emit_parse(variant, ir)
        except Exception as e:
            return "%s emit->parse raised %s: %s" % (variant, type(e).__name__, e)
        if count_pk(node) != 1:
            return "emission has %d primary keys" % count_pk(node)
        return cols_equiv(ir["params"], back["params"])

    return body


for _v in ("class", "table"):
    for _lo in range(0, len(COLUMN_CASES), 3):
        _hi = min(_lo + 2, len(COLUMN_CASES) - 1)
        ob("C05", "P1.columns.%s.k%02d" % (_v, _lo), {"kind": R(_lo, _hi), "x": PR}, pre="x != 47", tier="quick" if _v == "class" else "thorough", T=600, tpath=60, funcs=FUNCS,
           assumes=[ADHOC_SHIMS_DOC], bound="[PK] id, a column of kind %s with description <doc>+' '+X+'z' for every printable X except '/', and a trailing str column: names, order, "
           "types (nullability), defaults, descriptions and the PK/FK markers come back; exactly one primary key" % "; ".join(
               "%s%s %r" % (t, "" if d is E else "=%r" % (d,), doc) for t, doc, d in COLUMN_CASES[_lo:_hi + 1]))(_columns(_v, _lo, _hi))


# P1.names: column NAMES that look special (leading underscores, SQLAlchemy / Python attribute names, suffixes the PK inference looks at) -----------------------------
COLNAMES = ("_id", "_rev", "__x", "id_", "type", "metadata", "Column", "name", "kwargs", "loader_kwargs", "return_type", "self", "query", "registry", "x1", "Id", "ID",
            "user_id", "dataset_name", "created_at", "_", "Base")


def col_names(variant, n, pk, dflt):
    nm = COLNAMES[0]
    for k in range(1, len(COLNAMES)):
        if n == k:
            nm = COLNAMES[k]
    v = "class" if variant == 0 else "table"
    cols = [] if pk else [("id", {"typ": "int", "doc": "[PK] the id"})]
    c = {"typ": "str", "doc": ("[PK] " if pk else "") + "the col"}
    if dflt and not pk:
        c["default"] = "d"
    cols += [(nm, c), ("last", {"typ": "int", "doc": "the last", "default": 3})]
    ir = {"name": "Config", "doc": "Header line.", "type": "static", "params": OrderedDict(cols), "returns": None}
    try:
        node, back = emit_parse(v, ir)
    except Exception as e:
        return "%s emit->parse raised %s: %s" % (v, type(e).__name__, e)
    if count_pk(node) != 1:
        return "emission has %d primary keys" % count_pk(node)
    return cols_equiv(ir["params"], back["params"])


ob("C05", "P1.names", {"variant": R(0, 1), "n": R(0, len(COLNAMES) - 1), "pk": BOOL, "dflt": BOOL}, enum=True, T=600, tpath=60, funcs=FUNCS,
   bound="a str column named ANY of %r (the primary key itself or next to an explicit one, with/without default) followed by an int column, class and Table variants "
         "(solver-enumerated): every column comes back, in order, exactly one primary key" % (COLNAMES,))(col_names)


def agree(c0, c1, bdef, kind):
    ir = mk(c0, c1, 120, bdef, kind)
    try:
        _, a = emit_parse("class", ir)
        _, b = emit_parse("table", ir)
    except Exception as e:
        return "emit->parse raised %s: %s" % (type(e).__name__, e)
    return cols_equiv(a["params"], b["params"])


ob("C05", "P2.class_table_agree", {"c0": PR, "c1": PR, "bdef": BOOL, "kind": R(0, 4)}, T=400, funcs=FUNCS, assumes=[ADHOC_SHIMS_DOC],
   bound="same shapes as P1: parsing the class emission and the Table emission of one interface gives the same columns")(agree)


# K2: exactly one primary key for every placement of the [PK] marker / candidate names -----------------------------------------
NAMES = ("id", "dataset_name", "x", "user_id")


def pk_unique(variant, marker, mask, force_pk_id, opt=False):
    cols = []
    for i, n in enumerate(NAMES):
        if mask & (1 << i):
            t = "int" if n != "dataset_name" else "str"
            cols.append((n, {"typ": ("Optional[%s]" % t) if opt else t, "doc": ("[PK] " if marker == i else "") + "col " + n}))
    if not cols:
        return ""
    ir = {"name": "Config", "doc": "Header line.", "type": "static", "params": OrderedDict(cols), "returns": None}
    v = "class" if variant == 0 else "table"
    try:
        node, back = emit_parse(v, ir, force_pk_id=force_pk_id)
    except Exception as e:
        return "%s emit->parse raised %s: %s" % (v, type(e).__name__, e)
    n = count_pk(node)
    if n != 1:
        return "emission has %d primary keys (marker on %s, columns %r, force_pk_id=%s)" % (n, NAMES[marker] if 0 <= marker < 4 else None, [c[0] for c in cols], force_pk_id)
    marked = [k for k, p in back["params"].items() if (p.get("doc") or "").startswith("[PK]")]
    if len(marked) != 1:
        return "parsed back with %d [PK] markers" % len(marked)
    if 0 <= marker < 4 and (mask & (1 << marker)) and marked[0] != NAMES[marker]:
        return "the explicit [PK] marker moved from %s to %s" % (NAMES[marker], marked[0])
    for k, pcol in back["params"].items():
        want = dict(cols)[k]["typ"] if k in dict(cols) else None
        if want is not None and k != marked[0] and pcol.get("typ") != want:  # nullability of an INFERRED primary key is not claimed
            return "column %s: type changed %r -> %r (primary key: %s)" % (k, want, pcol.get("typ"), k == marked[0])
    return ""


ob("C05", "K2.pk_unique", {"variant": R(0, 1), "marker": R(-1, 3), "mask": R(1, 15), "force_pk_id": BOOL, "opt": BOOL}, enum=True, T=900, tpath=60, funcs=FUNCS,
   bound="ANY non-empty subset of columns %r, the [PK] marker on ANY one of them or on none, force_pk_id on/off, all columns Optional or not, class and Table variants (solver-enumerated); types survive, also on the primary key" % (NAMES,))(pk_unique)


def w_hybrid(kind):
    ir = mk(120, 121, 120, True, kind)
    try:
        node, back = emit_parse("hybrid", ir)
    except Exception as e:
        return "hybrid emit->parse raised %s: %s" % (type(e).__name__, e)
    return cols_equiv(ir["params"], back["params"])


ob("C05", "F26.hybrid", {"kind": R(0, 3)}, tier="witness", T=60, twin=False, funcs=["cdd.sqlalchemy.emit.sqlalchemy_hybrid", "cdd.sqlalchemy.parse.sqlalchemy_hybrid"],
   bound="witness of F26")(w_hybrid)


# P3: the hybrid emission carries the same Column(...) calls as the Table emission (AST level; the hybrid parser cannot read it back: F26) ---
def hybrid_columns_agree(marker, mask, force_pk_id, opt):
    import cdd.sqlalchemy.emit as E

    cols = []
    for i, n in enumerate(NAMES):
        if mask & (1 << i):
            t = "int" if n != "dataset_name" else "str"
            cols.append((n, {"typ": ("Optional[%s]" % t) if opt else t, "doc": ("[PK] " if marker == i else "") + "col " + n}))
    if not cols:
        return ""
    mk_ir = lambda name: {"name": name, "doc": "Header line.", "type": "static", "params": OrderedDict((k, dict(v)) for k, v in cols), "returns": None}
    try:
        table = E.sqlalchemy_table(mk_ir("config_tbl"), name="config_tbl", word_wrap=False, force_pk_id=force_pk_id)
        hybrid = E.sqlalchemy_hybrid(mk_ir("Config"), emit_repr=False, emit_create_from_attr=False, class_name="Config", table_name="config_tbl",
                                     word_wrap=False, force_pk_id=force_pk_id)
    except Exception as e:
        return "emitter raised %s: %s" % (type(e).__name__, e)

    def columns(node):
        out = []
        for sub in ast.walk(node):
            if isinstance(sub, ast.Call) and isinstance(sub.func, ast.Name) and sub.func.id == "Column":
                out.append(ast.unparse(sub))
        return out

    ct, ch = columns(table), columns(hybrid)
    if ct != ch:
        return "hybrid and Table emissions carry different columns: %r vs %r" % (ch, ct)
    if count_pk(hybrid) != 1:
        return "hybrid emission has %d primary keys" % count_pk(hybrid)
    return ""


ob("C05", "P3.hybrid_columns_agree", {"marker": R(-1, 3), "mask": R(1, 15), "force_pk_id": BOOL, "opt": BOOL}, enum=True, T=900, tpath=60,
   funcs=["cdd.sqlalchemy.emit.sqlalchemy_hybrid", "cdd.sqlalchemy.emit.sqlalchemy_table", "cdd.sqlalchemy.utils.emit_utils.ensure_has_primary_key"],
   bound="same column subsets / marker placements / force_pk_id as K2: the Column(...) calls inside the hybrid class's __table__ are textually the same as the Table variant's, exactly one primary key")(hybrid_columns_agree)


# P4: ONE interface object emitted as Table, class and hybrid in any order: every emission parses to what a fresh copy gives (the variants are interchangeable) --------------
ORDERS = (("table", "class", "hybrid"), ("table", "hybrid", "class"), ("class", "table", "hybrid"), ("class", "hybrid", "table"), ("hybrid", "table", "class"), ("hybrid", "class", "table"))


def _emit_variant(v, ir, force_pk_id):
    import cdd.sqlalchemy.emit as E

    if v == "table":
        return E.sqlalchemy_table(ir, name="config_tbl", word_wrap=False, force_pk_id=force_pk_id)
    if v == "class":
        return E.sqlalchemy(ir, emit_repr=False, class_name="Config", table_name="config_tbl", word_wrap=False, force_pk_id=force_pk_id)
    return E.sqlalchemy_hybrid(ir, emit_repr=False, emit_create_from_attr=False, class_name="Config", table_name="config_tbl", word_wrap=False, force_pk_id=force_pk_id)


def same_object_variants(order, force_pk_id, with_fk, opt):
    def mk_ir():
        cols = [("dataset_name", {"typ": "str", "doc": "[PK] the name"}), ("owner_id", {"typ": "int", "doc": ("[FK(owner_tbl.id)] " if with_fk else "") + "the owner"}),
                ("note", {"typ": "Optional[str]" if opt else "str", "doc": "a note"}), ("kind", {"typ": "Literal['a', 'b']", "doc": "the kind", "default": "a"})]
        return {"name": "config_tbl", "doc": "Header line.", "type": "static", "params": OrderedDict(cols), "returns": None}

    shared = mk_ir()
    for v in ORDERS[order]:
        try:
            got = ast.dump(_emit_variant(v, shared, force_pk_id))
            want = ast.dump(_emit_variant(v, mk_ir(), force_pk_id))
        except Exception as e:
            return "%s emitter raised %s: %s" % (v, type(e).__name__, e)
        if got != want:
            return "the %s emission of an interface that was already emitted as %s differs from the emission of a fresh copy" % (v, "/".join(ORDERS[order][:ORDERS[order].index(v)]) or "nothing")
    return ""


ob("C05", "P4.same_object_variants", {"order": R(0, len(ORDERS) - 1), "force_pk_id": BOOL, "with_fk": BOOL, "opt": BOOL}, enum=True, T=600, funcs=FUNCS + ["cdd.sqlalchemy.emit.sqlalchemy_hybrid"],
   bound="ONE interface object ([PK] str column, int column with or without [FK(..)], str or Optional[str] column, Literal column with default) emitted as Table, class and hybrid in ANY of the "
         "6 orders, force_pk_id on/off (solver-enumerated): every emission equals the emission of a fresh copy, so the three variants stay interchangeable")(same_object_variants)
