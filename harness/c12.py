"""C12 - sync replaces exactly the node at the dotted path, then is a no-op (AST level; DESIGN.md section 6, C12)."""
import ast
from collections import OrderedDict

from chx.ob import BOOL, CP, PR, R, U, known_active, ob

FUNCS = ["cdd.shared.ast_utils.RewriteAtQuery.generic_visit", "cdd.shared.ast_utils.RewriteAtQuery.visit_FunctionDef",
         "cdd.shared.ast_utils.find_in_ast", "cdd.shared.ast_utils.annotate_ancestry", "cdd.shared.ast_utils.cmp_ast"]
ASSUMPTIONS = ["AST level: what `sync` does between reading a target file (ast_parse) and writing it back (emit.file) - locate the node by dotted "
               "path, compare, replace; file creation for missing targets and the text rendering are outside the claim"]


def S(cs):
    s = ""
    for c in cs:
        s = s + chr(c)
    return s


SRC = {
    0: "class A(object):\n    x: int = 1\n\nclass T(object):\n    y: int = 2\n\nclass B(object):\n    z: int = 3\n",
    1: "def A(p=1):\n    return p\n\ndef T(q=2):\n    return q\n\ndef B(r=3):\n    return r\n",
    2: "class K(object):\n    def A(self):\n        return 1\n\n    def T(self):\n        return 2\n\n    def B(self):\n        return 3\n",
}


def rewrite(kind, a0, a1, t0, t1, b0, b1):
    """three siblings with symbolic names (aliasing allowed); replace the one at the dotted path"""
    from cdd.shared.ast_utils import RewriteAtQuery, annotate_ancestry, find_in_ast

    na, nt, nb = S((a0, a1)), S((t0, t1)), S((b0, b1))
    mod = ast.parse(SRC[kind])
    sibs = mod.body if kind != 2 else mod.body[0].body
    sibs[0].name, sibs[1].name, sibs[2].name = na, nt, nb
    annotate_ancestry(mod)
    search = [nt] if kind != 2 else ["K", nt]
    if kind == 0:
        repl = ast.parse("class R(object):\n    w: str = 'w'\n").body[0]
    else:
        repl = ast.parse("def R(w='w'):\n    return w\n").body[0]
    repl.name = nt
    originals = list(sibs)
    expected_idx = 0 if na == nt else 1  # the first node at that path
    found = find_in_ast(list(search), mod)
    if found is not originals[expected_idx]:
        return "find_in_ast does not return the first node at the dotted path"
    rw = RewriteAtQuery(search=list(search), replacement_node=repl)
    out = rw.visit(mod)
    if out is not mod:
        return "module object replaced"
    new = mod.body if kind != 2 else mod.body[0].body
    if len(new) != 3:
        return "number of siblings changed"
    if not rw.replaced:
        if kind != 0 and known_active("F10"):
            # known finding F10: function/method/argparse targets are never replaced; still nothing else may be touched
            for i in range(3):
                if new[i] is not originals[i]:
                    return "F10 path: a sibling was touched although nothing was replaced"
            return ""
        return "target differing from the replacement was reported unchanged (not replaced)"
    for i in range(3):
        if i == expected_idx:
            if new[i] is not repl:
                return "the node at the dotted path is not the replacement"
        elif new[i] is not originals[i]:
            return "a sibling outside the dotted path was touched"
    return ""


for _kind, _tag in ((0, "class"), (1, "function"), (2, "method")):
    ob("C12", "K1.rewrite.%s" % _tag, {"kind": R(_kind, _kind), "a0": PR, "a1": PR, "t0": PR, "t1": PR, "b0": PR, "b1": PR}, T=240,
       funcs=FUNCS, bound="three sibling %ss whose names are ANY 2 printable characters each (aliasing between siblings and with the target "
                          "allowed); target = the middle one's dotted path" % _tag)(rewrite)


def cmp_leaf(which, v0, v1, c0, c1):
    """cmp_ast(x, y) is True exactly when x and y are structurally equal: two copies differing in one symbolic leaf"""
    from cdd.shared.ast_utils import cmp_ast

    src = "class T(object):\n    '''doc'''\n    y: int = 2\n    def m(self, a=1, *, k='s'):\n        return [a, (k, 3)]\n"
    x, y = ast.parse(src).body[0], ast.parse(src).body[0]
    if not cmp_ast(x, y):
        return "cmp_ast(x, copy of x) is False"
    if which == 0:
        x.body[1].value.value, y.body[1].value.value = v0, v1
        same = v0 == v1
    elif which == 1:
        x.body[2].args.kw_defaults[0].value, y.body[2].args.kw_defaults[0].value = S((c0,)), S((c1,))
        same = c0 == c1
    elif which == 2:
        x.body[2].name, y.body[2].name = S((c0,)), S((c1,))
        same = c0 == c1
    elif which == 3:
        x.body[2].body[0].value.elts[1].elts[1].value, y.body[2].body[0].value.elts[1].elts[1].value = v0, v1
        same = v0 == v1
    else:
        x.body[2].args.args[1].arg, y.body[2].args.args[1].arg = S((c0,)), S((c1,))
        same = c0 == c1
    if cmp_ast(x, y) != same:
        return "cmp_ast disagrees with structural equality on a leaf (kind %d)" % which
    if cmp_ast(y, x) != same:
        return "cmp_ast is not symmetric"
    return ""


ob("C12", "K2.cmp_ast", {"which": R(0, 4), "v0": R(-5, 5), "v1": R(-5, 5), "c0": CP, "c1": CP}, T=240, funcs=["cdd.shared.ast_utils.cmp_ast"],
   bound="a class with attribute, method, defaults and nested literals; one leaf (int constant / str constant / name / nested constant / "
         "arg name) set to ANY two values in the two copies")(cmp_leaf)


def cmp_shape(field, drop, swap):
    """cmp_ast(x, y) is False when one list-valued field of y is a strict PREFIX / strict SUFFIX of x's (a trailing or leading statement, argument, default, element ... is missing)"""
    from cdd.shared.ast_utils import cmp_ast

    src = ("@deco\n@deco2\nclass T(Base, Other, metaclass=M):\n    '''doc'''\n    y: int = 2\n    z: str = 's'\n    def m(self, a=1, b=2, *, k='s', j=None):\n"
           "        q = [a, (k, 3), 4]\n        return f(q, b, key=j, flag=True)\n")
    x, y = ast.parse(src).body[0], ast.parse(src).body[0]
    sites = []
    for n in ast.walk(y):
        for name, val in ast.iter_fields(n):
            if isinstance(val, list) and len(val) >= 2:
                sites.append((n, name))
    n_sites = len(sites)
    if field >= n_sites:
        return ""
    node, name = sites[0]
    for k in range(1, n_sites):
        if field == k:
            node, name = sites[k]
    lst = getattr(node, name)
    setattr(node, name, lst[1:] if drop else lst[:-1])
    a, b = (y, x) if swap else (x, y)
    if cmp_ast(a, b):
        return "cmp_ast reports two trees equal although the %s list of a %s node lost its %s element" % (name, type(node).__name__, "first" if drop else "last")
    return ""


ob("C12", "K2.cmp_ast.shape", {"field": R(0, 11), "drop": BOOL, "swap": BOOL}, enum=True, T=300, funcs=["cdd.shared.ast_utils.cmp_ast"],
   bound="a decorated class with bases, keyword, attributes and a method with defaults, keyword-only arguments, list/tuple literals and a call: ANY list-valued field with >= 2 elements "
         "(body, decorators, bases, args, defaults, kw-only args, elements, call arguments, keywords) loses its first or last element in one copy; both argument orders")(cmp_shape)


def second_run(fmt, d0, d1):
    """re-emitting the truth gives a cmp_ast-equal node, so the second sync leaves the file alone"""
    import cdd.argparse_function.emit
    import cdd.class_.emit
    import cdd.function.emit
    from cdd.shared.ast_utils import cmp_ast

    ir = lambda: {"name": "T", "doc": "Doc.", "type": "static", "params": OrderedDict((
        ("a", {"typ": "int", "doc": "an int", "default": 5}), ("b", {"typ": "str", "doc": "a str", "default": S((d0, d1))}))),
        "returns": None}
    if fmt == 0:
        e = lambda: cdd.class_.emit.class_(ir(), class_name="T", word_wrap=False)
    elif fmt == 1:
        e = lambda: cdd.function.emit.function(ir(), function_name="T", function_type="static", word_wrap=False)
    else:
        e = lambda: cdd.argparse_function.emit.argparse_function(ir(), function_name="T", word_wrap=False)
    if not cmp_ast(e(), e()):
        return "two emissions of the same interface are not cmp_ast-equal: a second sync would rewrite the file"
    return ""


ob("C12", "K3.second_run_noop", {"fmt": R(0, 2), "d0": PR, "d1": PR}, T=300,
   funcs=["cdd.shared.ast_utils.cmp_ast", "cdd.class_.emit.class_", "cdd.function.emit.function", "cdd.argparse_function.emit.argparse_function"],
   bound="truth with an int and a str parameter whose default is ANY 2 printable characters; target kinds class/function/argparse")(second_run)


# K4: sync hands ONE truth interface to every emitter in turn (argparse, class, function): no emitter may change it ---------------------
def shared_truth(kind, i, truth_order):
    from copy import deepcopy

    import cdd.argparse_function.emit
    import cdd.class_.emit
    import cdd.function.emit
    from cdd.shared.ast_utils import NoneStr, cmp_ast

    dv = {0: None, 1: NoneStr, 2: i, 3: 0.0, 4: "s", 5: False}
    tv = {0: "Optional[float]", 1: "Optional[float]", 2: "int", 3: "float", 4: "str", 5: "Optional[bool]"}
    d, t = dv[0], tv[0]
    for k in range(1, 6):
        if kind == k:
            d, t = dv[k], tv[k]
    gold = {"name": "T", "doc": "Doc.", "type": "static", "params": OrderedDict((
        ("timeout", {"typ": t, "doc": "the timeout", "default": d}), ("b", {"typ": "str", "doc": "a str", "default": "x"}))),
        "returns": None}
    emitters = (
        lambda ir: cdd.argparse_function.emit.argparse_function(ir, function_name="set_cli_args", word_wrap=False),
        lambda ir: cdd.class_.emit.class_(ir, class_name="T", word_wrap=False),
        lambda ir: cdd.function.emit.function(ir, function_name="T", function_type="static", word_wrap=False),
    )
    order = ((0, 1, 2), (0, 2, 1), (1, 0, 2), (2, 1, 0))[0]
    for j, cand in enumerate(((0, 2, 1), (1, 0, 2), (2, 1, 0))):
        if truth_order == j + 1:
            order = cand
    shared = deepcopy(gold)
    for idx in order:
        fresh = emitters[idx](deepcopy(gold))
        got = emitters[idx](shared)  # the same object is passed on, as cdd.shared.conformance.ground_truth does
        if not cmp_ast(fresh, got):
            return "emitter #%d produced a different target from the shared truth than from a fresh copy (an earlier emitter changed the truth)" % idx
    return ""


ob("C12", "K4.shared_truth", {"kind": R(0, 5), "i": R(-1, 1), "truth_order": R(0, 3)}, T=400,
   funcs=["cdd.shared.conformance.ground_truth", "cdd.argparse_function.emit.argparse_function", "cdd.class_.emit.class_", "cdd.function.emit.function",
          "cdd.shared.ast_utils.param2argparse_param"],
   bound="truth with a parameter whose default is None / NoneStr / int -1..1 / 0.0 / str / False, handed as ONE object to the three emitters in 4 orders "
         "(argparse first, as sync does): each target equals the one emitted from a fresh copy")(shared_truth)


# K5: _conform_filename on scratch files: missing / empty / unrelated-only / unrelated + stale target; code outside the target is kept ------
import atexit  # noqa: E402
import os  # noqa: E402
import shutil  # noqa: E402
import tempfile  # noqa: E402

_ROOT = tempfile.mkdtemp(prefix="chx_c12_")
atexit.register(shutil.rmtree, _ROOT, True)
_N = [0]
UNRELATED = "import os\n\nX = 1\n\n\ndef helper(a, b=2):\n    return a + b\n\n\nclass Other(object):\n    y: int = 3\n"
STALE = {
    0: "\n\nclass T(object):\n    \"\"\"\n    Old.\n\n    :cvar q: old q\n    \"\"\"\n\n    q: int = 0\n",
    1: "\n\ndef T(q=0):\n    \"\"\"\n    Old.\n\n    :param q: old q\n    \"\"\"\n    return q\n",
    2: "\n\ndef T(argument_parser):\n    \"\"\"\n    Old.\n\n    :param argument_parser: argument parser\n    \"\"\"\n    argument_parser.description = 'Old.'\n    argument_parser.add_argument('--q', type=int, default=0)\n    return argument_parser\n",
}


def conform_file(kind, state):
    import contextlib
    import io
    from ast import ClassDef, FunctionDef

    import cdd.argparse_function.emit
    import cdd.class_.emit
    import cdd.function.emit
    import cdd.shared.emit.file as ef
    from cdd.shared.conformance import _conform_filename
    from chx.shim import REPLAYING, shim
    import types

    emit = (cdd.class_.emit.class_, cdd.function.emit.function, cdd.argparse_function.emit.argparse_function)[0]
    wanted = ClassDef
    for k, (e, w) in enumerate(((cdd.function.emit.function, FunctionDef), (cdd.argparse_function.emit.argparse_function, FunctionDef))):
        if kind == k + 1:
            emit, wanted = e, w
    before = ""
    if state == 2:
        before = UNRELATED
    elif state == 3:
        before = UNRELATED + STALE[0]
        for k in (1, 2):
            if kind == k:
                before = UNRELATED + STALE[k]
    _N[0] += 1
    filename = os.path.join(_ROOT, "t%d.py" % _N[0])
    if state != 0:
        with open(filename, "wt") as f:
            f.write(before)
    gold = {"name": "T", "doc": "New.", "type": "static", "params": OrderedDict((("a", {"typ": "int", "doc": "an a", "default": 5}),)), "returns": None}
    black_stub = types.SimpleNamespace(format_str=lambda src_contents, mode=None: src_contents, Mode=lambda **kw: None)
    try:
        with contextlib.redirect_stdout(io.StringIO()), shim(ef, black=black_stub):
            try:
                _conform_filename(filename=filename, search=["T"], emit_func=lambda ir, **kw: emit(ir, word_wrap=False, **kw), replacement_node_ir=gold, type_wanted=wanted)
            except Exception as e:
                return "_conform_filename raised %s: %s" % (type(e).__name__, e)
        with open(filename, "rt") as f:
            after = f.read()
        with contextlib.redirect_stdout(io.StringIO()), shim(ef, black=black_stub):
            try:
                _conform_filename(filename=filename, search=["T"], emit_func=lambda ir, **kw: emit(ir, word_wrap=False, **kw), replacement_node_ir=gold, type_wanted=wanted)
            except Exception as e:
                return "second run of _conform_filename raised %s: %s" % (type(e).__name__, e)
        with open(filename, "rt") as f:
            after2 = f.read()
    finally:
        if os.path.exists(filename):
            os.remove(filename)
    if after2 != after:
        return "running the same sync a second time changed the file (%d -> %d bytes, file state %d)" % (len(after), len(after2), state)
    try:
        mod = ast.parse(after)
    except SyntaxError as e:
        return "the target file is not valid Python afterwards: %s" % e
    names = [n.name for n in mod.body if isinstance(n, (ast.ClassDef, ast.FunctionDef))] + [t.id for n in mod.body if isinstance(n, ast.Assign) for t in n.targets if isinstance(t, ast.Name)]
    if state >= 2:
        for must in ("X", "helper", "Other"):
            if must not in names:
                return "code outside the named target was lost: %r is gone (file state %d)" % (must, state)
        if not any(isinstance(n, ast.Import) for n in mod.body):
            return "the import outside the named target was lost"
    if state != 3 or kind == 0 or not known_active("F10"):
        if "T" not in names:
            return "the target was not created"
    return ""


ob("C12", "K5.conform_file", {"kind": R(0, 2), "state": R(0, 3)}, T=600, tpath=120,
   funcs=["cdd.shared.conformance._conform_filename", "cdd.shared.emit.file.file", "cdd.shared.ast_utils.find_in_ast", "cdd.shared.ast_utils.RewriteAtQuery.generic_visit"],
   assumes=["stub: black.format_str -> identity in cdd.shared.emit.file under the engine (formatting is not the subject)"],
   bound="_conform_filename on a scratch file (outside /repo and /verif) for class / function / argparse targets; file missing, empty, holding unrelated definitions "
         "only, or unrelated definitions plus a stale target (solver-enumerated): valid Python afterwards, unrelated definitions and imports kept, target present, a second run leaves the file byte-identical")(conform_file)


# K6: the whole sync (cdd.shared.conformance.ground_truth) on three scratch files, run three times ------------------------------------------------
METHODS = ('class C(object):\n    """C class"""\n\n    def helper(self):\n        return 2\n\n    def function_name(self, gamma: float = 0.5, name: str = "x"):\n        """\n        The truth.\n\n'
           '        :param gamma: the gamma\n\n        :param name: the name\n        """\n\n    def tail(self):\n        return 3\n')
ARGP = ('def pre(x):\n    return x\n\n\ndef set_cli_args(argument_parser):\n    """\n    Set CLI arguments\n\n    :param argument_parser: argument parser\n    :type argument_parser: ```ArgumentParser```\n\n'
        '    :return: argument_parser\n    :rtype: ```ArgumentParser```\n    """\n    argument_parser.description = "Yet another."\n    argument_parser.add_argument("--delta", type=int, help="the delta", required=True, default=7)\n'
        '    return argument_parser\n')
CLASSES = {0: None, 1: "", 2: "import os\n\nX = 1\n", 3: 'import os\n\n\nclass ConfigClass(object):\n    """\n    Old.\n\n    :cvar q: old q\n    """\n\n    q: int = 0\n\n\nY = 2\n'}


import contextlib as _ctx  # noqa: E402


@_ctx.contextmanager
def _untraced_black(ef):
    """run the real black, but outside the tracer"""
    from chx.shim import REPLAYING

    if REPLAYING():
        yield
        return
    import types

    from crosshair.tracers import NoTracing

    real = ef.black

    def fmt(src_contents, mode=None):
        with NoTracing():
            return real.format_str(str(src_contents), mode=mode)

    def mk_mode(line_length=119, is_pyi=False, string_normalization=False, **_kw):
        with NoTracing():  # `set()` made under the tracer is a CrossHair shell, which black's Mode rejects
            return real.Mode(
                target_versions=set(), line_length=int(line_length), is_pyi=bool(is_pyi), string_normalization=bool(string_normalization)
            )

    ef.__dict__["black"] = types.SimpleNamespace(format_str=fmt, Mode=mk_mode)
    try:
        yield
    finally:
        ef.__dict__["black"] = real


def sync_thrice(class_state, wrap):
    import contextlib
    import io
    import types
    from argparse import Namespace

    import cdd.shared.emit.file as ef
    from cdd.shared.conformance import ground_truth
    from chx.shim import shim

    _N[0] += 1
    d = os.path.join(_ROOT, "s%d" % _N[0])
    os.mkdir(d)
    files = {"class": os.path.join(d, "classes.py"), "function": os.path.join(d, "methods.py"), "argparse": os.path.join(d, "argp.py")}
    black_stub = types.SimpleNamespace(format_str=lambda src_contents, mode=None: src_contents, Mode=lambda **kw: None)
    try:
        with open(files["function"], "wt") as f:
            f.write(METHODS)
        with open(files["argparse"], "wt") as f:
            f.write(ARGP)
        content = CLASSES[0]
        for k in (1, 2, 3):
            if class_state == k:
                content = CLASSES[k]
        if content is not None:
            with open(files["class"], "wt") as f:
                f.write(content)
        args = Namespace(argparse_functions=[files["argparse"]], argparse_function_names=["set_cli_args"], classes=[files["class"]], class_names=["ConfigClass"],
                         functions=[files["function"]], function_names=["C.function_name"], truth="function", no_word_wrap=None if wrap else True)

        def snap():
            out = {}
            for kind, fn in files.items():
                with open(fn, "rt") as f:
                    out[kind] = f.read()
            return out

        snaps = []
        for run in (1, 2, 3):
            with contextlib.redirect_stdout(io.StringIO()), contextlib.redirect_stderr(io.StringIO()), _untraced_black(ef):
                try:
                    ground_truth(args, files["function"])
                except Exception as e:
                    return "run %d of sync raised %s: %s" % (run, type(e).__name__, e)
            snaps.append(snap())
    finally:
        shutil.rmtree(d, ignore_errors=True)
    for kind in files:
        try:
            ast.parse(snaps[0][kind])
        except SyntaxError as e:
            return "%s file is not valid Python after sync: %s" % (kind, e)
    if snaps[0]["function"] != METHODS:
        return "the truth file was modified by sync"
    if "def pre(x)" not in snaps[0]["argparse"] or (class_state >= 2 and "import os" not in snaps[0]["class"]) or (class_state == 3 and "Y = 2" not in snaps[0]["class"]):
        return "code outside the named targets was lost"
    klass = [n for n in ast.parse(snaps[0]["class"]).body if isinstance(n, ast.ClassDef) and n.name == "ConfigClass"]
    if not klass:
        return "the class target was not created"
    attrs = [(st.target.id, ast.unparse(st.annotation)) for st in klass[0].body if isinstance(st, ast.AnnAssign)]
    if attrs != [("gamma", "float"), ("name", "str")]:
        return "the class target has the interface %r, not the truth's" % (attrs,)
    for run in (1, 2):
        for kind in files:
            if snaps[run][kind] != snaps[run - 1][kind]:
                return "run %d of the same sync changed the %s file (%d -> %d bytes; class file state %d)" % (run + 1, kind, len(snaps[run - 1][kind]), len(snaps[run][kind]), class_state)
    return ""


ob("C12", "K6.sync_thrice", {"class_state": R(0, 3), "wrap": BOOL}, enum=True, T=900, tpath=200,
   funcs=["cdd.shared.conformance.ground_truth", "cdd.shared.conformance._conform_filename", "cdd.shared.emit.file.file", "cdd.function.parse.function",
          "cdd.class_.emit.class_", "cdd.argparse_function.emit.argparse_function"],
   assumes=["black.format_str runs for real but OUTSIDE the tracer (its input is concrete; it is a large pure-Python program), because whether the second run rewrites a file "
            "depends on black's normalisation of the first run's output"],
   bound="the whole sync with a method as truth, an existing argparse target and a class target file that is missing / empty / holds unrelated code / holds unrelated code "
         "and a stale class (solver-enumerated), run three times: valid Python, truth untouched, unrelated code kept, class takes the truth's interface, runs 2 and 3 byte-identical")(sync_thrice)


# K7: the truth (or the target) EVOLVES between two syncs: the second sync must bring the class back to the truth's interface -----------------------------
def _methods(params, documented):
    sig = ", ".join("%s: %s = %s" % p for p in params)
    doc = "        The truth.\n" + ("".join("\n        :param %s: the %s\n" % (p[0], p[0]) for p in params) if documented else "")
    return ('class C(object):\n    """C class"""\n\n    def helper(self):\n        return 2\n\n    def function_name(self, %s):\n        """\n%s        """\n\n    def tail(self):\n        return 3\n' % (sig, doc))


P_BASE = (("gamma", "float", "0.5"), ("name", "str", '"x"'))
EVOLVE = {0: P_BASE + (("beta", "int", "3"),),  # a trailing parameter is added to the truth
          1: P_BASE[:1],  # the trailing parameter is removed from the truth
          2: (("alpha", "int", "1"),) + P_BASE,  # a leading parameter is added
          3: (("gamma", "float", "0.5"), ("name", "str", '"y"')),  # only a default value changes
          4: P_BASE}  # the truth stays; the TARGET gains a trailing attribute by hand


def sync_evolve(change, documented):
    import contextlib
    import io
    from argparse import Namespace

    import cdd.shared.emit.file as ef
    from cdd.shared.conformance import ground_truth

    _N[0] += 1
    d = os.path.join(_ROOT, "e%d" % _N[0])
    os.mkdir(d)
    files = {"class": os.path.join(d, "classes.py"), "function": os.path.join(d, "methods.py"), "argparse": os.path.join(d, "argp.py")}
    want = EVOLVE[0]
    for k in (1, 2, 3, 4):
        if change == k:
            want = EVOLVE[k]
    try:
        with open(files["function"], "wt") as f:
            f.write(_methods(P_BASE, documented))
        with open(files["argparse"], "wt") as f:
            f.write(ARGP)
        args = Namespace(argparse_functions=[files["argparse"]], argparse_function_names=["set_cli_args"], classes=[files["class"]], class_names=["ConfigClass"],
                         functions=[files["function"]], function_names=["C.function_name"], truth="function", no_word_wrap=True)

        def run(n):
            with contextlib.redirect_stdout(io.StringIO()), contextlib.redirect_stderr(io.StringIO()), _untraced_black(ef):
                try:
                    ground_truth(args, files["function"])
                except Exception as e:
                    return "sync %d raised %s: %s" % (n, type(e).__name__, e)
            return ""

        e = run(1)
        if e:
            return e
        if change == 4:
            with open(files["class"], "rt") as f:
                text = f.read()
            with open(files["class"], "wt") as f:
                f.write(text.rstrip("\n") + "\n    verbose: bool = False\n")
        else:
            with open(files["function"], "wt") as f:
                f.write(_methods(want, documented))
        e = run(2)
        if e:
            return e
        with open(files["class"], "rt") as f:
            after2 = f.read()
        e = run(3)
        if e:
            return e
        with open(files["class"], "rt") as f:
            after3 = f.read()
    finally:
        shutil.rmtree(d, ignore_errors=True)
    try:
        klass = [n for n in ast.parse(after2).body if isinstance(n, ast.ClassDef) and n.name == "ConfigClass"]
    except SyntaxError as e:
        return "class file is not valid Python after the second sync: %s" % e
    if not klass:
        return "the class target disappeared"
    attrs = [(st.target.id, ast.unparse(st.annotation), ast.unparse(st.value)) for st in klass[0].body if isinstance(st, ast.AnnAssign)]
    expect = [(n, t, ast.unparse(ast.parse(v).body[0].value)) for n, t, v in want]
    if attrs != expect:
        return "after the %s changed, the second sync left the class with %r instead of the truth's %r" % ("target" if change == 4 else "truth", attrs, expect)
    if after3 != after2:
        return "a third sync changed the class file again"
    return ""


ob("C12", "K7.sync_evolves", {"change": R(0, 4), "documented": BOOL}, enum=True, T=1200, tpath=200,
   funcs=["cdd.shared.conformance.ground_truth", "cdd.shared.conformance._conform_filename", "cdd.shared.ast_utils.cmp_ast", "cdd.shared.ast_utils.RewriteAtQuery", "cdd.class_.emit.class_"],
   assumes=["black.format_str runs for real but OUTSIDE the tracer (see K6)"],
   bound="history: sync creates the class from a method truth; then the truth gains a trailing / loses its trailing / gains a leading parameter / changes a default, or the class gains a "
         "trailing attribute by hand; parameters documented in the truth's docstring or not (solver-enumerated); sync again: the class has exactly the truth's interface; a third sync is a no-op")(sync_evolve)
