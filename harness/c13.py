"""C13 - sync_properties updates exactly the selected property (AST level; DESIGN.md section 6, C13)."""
import ast

from chx.ob import BOOL, CP, PR, R, U, ob

FUNCS = ["cdd.compound.sync_properties.sync_property", "cdd.shared.ast_utils.find_in_ast", "cdd.shared.ast_utils.annotate_ancestry",
         "cdd.shared.ast_utils.RewriteAtQuery.visit_FunctionDef", "cdd.shared.ast_utils.RewriteAtQuery.generic_visit",
         "cdd.shared.ast_utils.emit_arg", "cdd.shared.ast_utils.set_arg"]
ASSUMPTIONS = ["AST level: the output/input modules are built with ast.parse from a concrete text per path (shape variables are solver "
               "ints, so the solver enumerates the finite shape space and certifies exhaustion); writing the file back (to_code) is outside the claim"]


def _dump(x):
    try:
        from crosshair.tracers import NoTracing
    except ImportError:  # pragma: no cover
        return ast.dump(x)
    with NoTracing():
        return ast.dump(x)


def build(nargs, ndefaults, has_self, kwonly, in_method):
    names = ([("self", "self", "cls")[has_self]] if has_self else []) + ["p%d" % i for i in range(nargs)]
    total = len(names)
    parts = []
    for j, n in enumerate(names):
        dj = j - (total - ndefaults)
        parts.append("%s=%d" % (n, 100 + dj) if dj >= 0 else n)
    if kwonly:
        parts += ["*", "k0=7", "k1"]
    fn = "def f(%s):\n    return 1\n" % ", ".join(parts)
    if in_method:
        fn = "class K(object):\n    y: str = 'y'\n" + "".join("    " + l + "\n" for l in fn.splitlines()) + "    z = 3\n"
    return "X = 1\n\n" + fn + "\ndef g(z=3):\n    pass\n", names


ANNS = ("int", "Optional[int]", "List[str]")
WRAPS = (None, "Optional[{output_param}]", "List[{output_param}]", "Optional[List[Union[{output_param}, str]]]")


def sync(nargs, ndefaults, t, has_self, same_name, has_value, wrap, kwonly, in_method, ann=0):
    """returns (diag) for one shape"""
    from cdd.compound.sync_properties import sync_property

    if has_self and not in_method:
        in_method = True
    if ndefaults > nargs or t >= nargs:
        return ""
    src, names = build(nargs, ndefaults, has_self, kwonly, in_method)
    target = "p%d" % t
    in_name = target if same_name else "q"
    the_ann = ANNS[0]
    for k in (1, 2):
        if ann == k:
            the_ann = ANNS[k]
    the_wrap = WRAPS[0]
    for k in (1, 2, 3):
        if wrap == k:
            the_wrap = WRAPS[k]
    in_src = "class C(object):\n    other: float = 1.5\n    %s: %s%s\n" % (in_name, the_ann, " = 5" if has_value else "")
    from cdd.shared.source_transformer import ast_parse

    input_ast, output_ast = ast_parse(in_src, filename="<in>"), ast_parse(src, filename="<out>")  # as sync_properties() does
    before = ast.parse(src)
    path = ("K.f." if in_method else "f.") + target
    try:
        out = sync_property(False, "C." + in_name, input_ast, "<in>", path, the_wrap, output_ast)
    except (AssertionError, NotImplementedError) as e:
        return "sync_property refused a valid request: %s: %s" % (type(e).__name__, e)
    want_ann = the_ann if the_wrap is None else the_wrap.replace("{output_param}", the_ann)

    def fn_of(mod):
        body = mod.body[1].body if in_method else mod.body
        return [n for n in body if isinstance(n, ast.FunctionDef) and n.name == "f"][0]

    f0, f1 = fn_of(before), fn_of(out)
    # everything outside f is untouched
    for i in range(len(before.body)):
        if not in_method and before.body[i] is f0:
            continue
        if in_method and i == 1:
            if len(out.body[1].body) != len(before.body[1].body):
                return "class body length changed"
            for a, b in zip(before.body[1].body, out.body[1].body):
                if a is not f0 and _dump(a) != _dump(b):
                    return "another statement of the class changed"
            continue
        if _dump(before.body[i]) != _dump(out.body[i]):
            return "a statement outside the target function changed"
    if len(out.body) != len(before.body):
        return "module body length changed"
    # arguments
    if len(f1.args.args) != len(f0.args.args) or len(f1.args.kwonlyargs) != len(f0.args.kwonlyargs):
        return "number of parameters changed"
    ti = names.index(target)
    for j in range(len(names)):
        a0, a1 = f0.args.args[j], f1.args.args[j]
        if j == ti:
            if a1.arg != in_name:
                return "selected parameter did not take the input's name"
            if a1.annotation is None or ast.unparse(a1.annotation) != want_ann:
                return "selected parameter did not take the input's annotation (got %s)" % (None if a1.annotation is None else ast.unparse(a1.annotation))
        elif a1.arg != a0.arg or _dump(a1) != _dump(a0):
            return "another parameter changed"
    for a0, a1 in zip(f0.args.kwonlyargs, f1.args.kwonlyargs):
        if _dump(a0) != _dump(a1):
            return "a keyword-only parameter changed"
    if _dump(ast.Module(body=f0.args.kw_defaults and [ast.Expr(d) for d in f0.args.kw_defaults if d] or [], type_ignores=[])) != \
            _dump(ast.Module(body=f1.args.kw_defaults and [ast.Expr(d) for d in f1.args.kw_defaults if d] or [], type_ignores=[])):
        return "a keyword-only default changed"
    # defaults: right-aligned ownership; only the selected parameter's own default may change
    if len(f1.args.defaults) != len(f0.args.defaults):
        return "number of defaults changed (parameter/default alignment broken)"
    total = len(names)
    own = ti - (total - ndefaults)
    for k in range(len(f0.args.defaults)):
        if k == own:
            continue
        if _dump(f0.args.defaults[k]) != _dump(f1.args.defaults[k]):
            return "the default of ANOTHER parameter (%s) changed from %s to %s" % (
                names[k + total - ndefaults], ast.unparse(f0.args.defaults[k]), ast.unparse(f1.args.defaults[k]))
    if _dump(ast.Module(body=f0.body, type_ignores=[])) != _dump(ast.Module(body=f1.body, type_ignores=[])):
        return "function body changed"
    return ""


for _na, _tier in ((1, "quick"), (2, "quick"), (3, "quick"), (4, "thorough"), (5, "thorough")):
    for _meth in (False, True):
        ob("C13", "K1.param_target.n%d%s" % (_na, ".method" if _meth else ""),
           {"nargs": R(_na, _na), "ndefaults": R(0, _na), "t": R(0, _na - 1), "has_self": R(0, 2) if _meth else R(0, 0), "same_name": BOOL,
            "has_value": BOOL, "wrap": R(0, 1), "kwonly": BOOL, "in_method": R(1, 1) if _meth else R(0, 0), "ann": R(0, 0)},
           tier=_tier, T=400, tpath=60, funcs=FUNCS,
           bound="output %s with %d positional parameters%s, ANY number (0..%d) of right-aligned defaults, optional keyword-only tail, "
                 "ANY target index; input = annotated class attribute with the same or another name, with/without value; wrap template on/off "
                 "(finite shape space enumerated by the solver)" % ("method" if _meth else "function", _na, " (+ self / cls / static)" if _meth else "", _na))(sync)


ob("C13", "K1.wrap_templates", {"nargs": R(2, 2), "ndefaults": R(0, 2), "t": R(0, 1), "has_self": R(0, 0), "same_name": BOOL, "has_value": BOOL,
                                "wrap": R(0, 3), "kwonly": R(0, 0), "in_method": R(0, 0), "ann": R(0, 2)}, enum=True, T=600, tpath=60, funcs=FUNCS,
   bound="input annotation int / Optional[int] / List[str] x wrap template none / Optional[..] / List[..] / Optional[List[Union[.., str]]] (also templates whose outer "
         "shape equals the annotation's): the target receives exactly template(annotation)")(sync)


# class-attribute target -------------------------------------------------------------------------------------
def sync_attr(pos, nattr, has_value, wrap, from_param):
    from cdd.compound.sync_properties import sync_property

    if pos >= nattr:
        return ""
    attrs = ["    a%d: str = 's%d'\n" % (i, i) for i in range(nattr)]
    src = "X = 1\n\nclass K(object):\n" + "".join(attrs) + "    def m(self, a0=1):\n        return a0\n\nY = 2\n"
    if from_param:
        in_src = "def h(other, a%d: int%s):\n    pass\n" % (pos, " = 5" if has_value else "")
        in_path = "h.a%d" % pos
    else:
        in_src = "class C(object):\n    a%d: int%s\n" % (pos, " = 5" if has_value else "")
        in_path = "C.a%d" % pos
    from cdd.shared.source_transformer import ast_parse

    input_ast, output_ast, before = ast_parse(in_src, filename="<in>"), ast_parse(src, filename="<out>"), ast.parse(src)
    try:
        out = sync_property(False, in_path, input_ast, "<in>", "K.a%d" % pos, "Optional[{output_param}]" if wrap else None, output_ast)
    except (AssertionError, NotImplementedError) as e:
        return "sync_property refused a valid request: %s: %s" % (type(e).__name__, e)
    if len(out.body) != 3 or _dump(out.body[0]) != _dump(before.body[0]) or _dump(out.body[2]) != _dump(before.body[2]):
        return "a statement outside the class changed"
    b0, b1 = before.body[1].body, out.body[1].body
    if len(b0) != len(b1):
        return "class body length changed"
    for i in range(len(b0)):
        if i == pos:
            # what the output FILE will contain (an ast.arg renders as `name: annotation`, like an AnnAssign)
            text = ast.unparse(b1[i])
            want = "a%d: %s" % (pos, "Optional[int]" if wrap else "int")
            if text != want and not text.startswith(want + " = "):
                return "selected attribute renders as %r, expected %r" % (text, want)
        elif _dump(b0[i]) != _dump(b1[i]):
            return "another attribute/method of the class changed"
    return ""


ob("C13", "K2.attr_target", {"pos": R(0, 3), "nattr": R(1, 4), "has_value": BOOL, "wrap": BOOL, "from_param": BOOL}, enum=True, T=300, tpath=60,
   funcs=FUNCS, bound="class with 1..4 annotated attributes and a method, ANY attribute selected; input = class attribute or function "
                      "parameter, with/without value; wrap on/off")(sync_attr)


# K3: --input-eval mode: the target keeps its own name and receives the Literal of the evaluated input value ----------------------------
VALSETS = (("alpha", "beta", "gamma"), ("debug", "info", "info", "warn"), (False, True, 0, 1, 2), (1, 1.0, 2), ("a", "a"), (3, 1, 2), ("b", "a"), (True, 1, "1"))


def sync_eval(nvals, target_kind, nargs, ndefaults, t, has_self, vset=0):
    from cdd.compound.sync_properties import sync_property
    from cdd.shared.source_transformer import ast_parse

    if t >= nargs or ndefaults > nargs:
        return ""
    vals = VALSETS[vset][:nvals] if vset == 0 else VALSETS[vset]
    in_src = "VAL = %r\n" % (list(vals),)  # a constant: --input-eval is eval by design (explicit opt-in)
    want = "Literal[%s]" % ", ".join(repr(v) for v in vals)
    input_ast = ast_parse(in_src, filename="<in>")
    if target_kind == 0:
        src = "X = 1\n\nclass K(object):\n    a0: str = 's0'\n    a1: str = 's1'\n\nY = 2\n"
        path, own = "K.a1", "a1"
    else:
        src, names = build(nargs, ndefaults, has_self, False, bool(has_self))
        own = "p%d" % t
        path = ("K.f." if has_self else "f.") + own
    output_ast, before = ast_parse(src, filename="<out>"), ast.parse(src)
    import builtins

    import cdd.compound.sync_properties as sp
    from chx.shim import shim

    def plain_eval(code, glb=None, loc=None):  # the engine's model of eval() loses the module namespace of a code object: run the real one untraced
        from crosshair.tracers import NoTracing

        with NoTracing():
            return builtins.eval(code, glb) if loc is None else builtins.eval(code, glb, loc)

    try:
        with shim(sp, eval=plain_eval):
            out = sync_property(True, "VAL", input_ast, "<in>", path, None, output_ast)
    except (AssertionError, NotImplementedError) as e:
        return "sync_property refused a valid request: %s: %s" % (type(e).__name__, e)
    if target_kind == 0:
        b0, b1 = before.body[1].body, out.body[1].body
        if len(b0) != len(b1) or _dump(out.body[0]) != _dump(before.body[0]) or _dump(out.body[2]) != _dump(before.body[2]) or _dump(b0[0]) != _dump(b1[0]):
            return "something other than the selected attribute changed"
        text = ast.unparse(b1[1])
        if text != "%s: %s" % (own, want) and not text.startswith("%s: %s = " % (own, want)):
            return "selected attribute renders as %r, expected '%s: %s'" % (text, own, want)
        return ""
    fn0 = [n for n in (before.body[1].body if has_self else before.body) if isinstance(n, ast.FunctionDef) and n.name == "f"][0]
    fn1 = [n for n in (out.body[1].body if has_self else out.body) if isinstance(n, ast.FunctionDef) and n.name == "f"][0]
    ti = (1 if has_self else 0) + t
    if len(fn0.args.args) != len(fn1.args.args) or len(fn0.args.defaults) != len(fn1.args.defaults):
        return "number of parameters/defaults changed"
    for j in range(len(fn0.args.args)):
        a0, a1 = fn0.args.args[j], fn1.args.args[j]
        if j == ti:
            if a1.arg != own:
                return "the target did not keep its own name (%r)" % a1.arg
            if a1.annotation is None or ast.unparse(a1.annotation) != want:
                return "the target did not receive %s (got %s)" % (want, None if a1.annotation is None else ast.unparse(a1.annotation))
        elif _dump(a0) != _dump(a1):
            return "another parameter changed"
    for k in range(len(fn0.args.defaults)):
        if _dump(fn0.args.defaults[k]) != _dump(fn1.args.defaults[k]):
            return "a default changed in --input-eval mode"
    return ""


ob("C13", "K3.input_eval", {"nvals": R(1, 3), "target_kind": R(0, 1), "nargs": R(1, 3), "ndefaults": R(0, 3), "t": R(0, 2), "has_self": R(0, 2)}, enum=True,
   pre="t < nargs and ndefaults <= nargs", T=600, tpath=60, funcs=FUNCS + ["cdd.shared.ast_utils.it2literal"],
   assumes=["shim: eval in cdd.compound.sync_properties runs the real builtin outside the tracer (CrossHair's eval model drops the namespace of an exec-mode code object); the evaluated module is a concrete constant"],
   bound="--input-eval with a concrete constant list of 1..3 strings (eval is the explicit opt-in); target = class attribute or parameter of a function/method "
         "(1..3 parameters, any defaults, self/cls/none, any index): own name kept, Literal[...] received, nothing else changes (solver-enumerated shapes)")(sync_eval)


# K4: several nodes of the output file answer to the same dotted path (version-switch twins, nested namesake, re-annotation): exactly ONE changes ----------
DUP_SRC = (
    "X = 1\n\nif X:\n    class K(object):\n        a0: str = 's0'\n        b: int = 1\nelse:\n    class K(object):\n        a0: str = 's0'\n        b: int = 2\n\nY = 2\n",
    "X = 1\n\nclass K(object):\n    a0: str = 's0'\n\n    class K(object):\n        a0: str = 'inner'\n\n    b: int = 1\n\nY = 2\n",
    "X = 1\n\nclass K(object):\n    a0: str = 's0'\n    b: int = 1\n    a0: str = 'again'\n\nY = 2\n",
    "X = 1\n\ntry:\n    class K(object):\n        a0: str = 's0'\nexcept ImportError:\n    class K(object):\n        a0: str = 's1'\n\nY = 2\n",
)


def sync_dup(kind, has_value, wrap, from_param):
    from cdd.compound.sync_properties import sync_property
    from cdd.shared.source_transformer import ast_parse

    src = DUP_SRC[0]
    for k in range(1, len(DUP_SRC)):
        if kind == k:
            src = DUP_SRC[k]
    if from_param:
        in_src, in_path = "def h(other, a0: int%s):\n    pass\n" % (" = 5" if has_value else ""), "h.a0"
    else:
        in_src, in_path = "class C(object):\n    a0: int%s\n" % (" = 5" if has_value else ""), "C.a0"
    input_ast, output_ast, before = ast_parse(in_src, filename="<in>"), ast_parse(src, filename="<out>"), ast.parse(src)
    try:
        out = sync_property(False, in_path, input_ast, "<in>", "K.a0", "Optional[{output_param}]" if wrap else None, output_ast)
    except (AssertionError, NotImplementedError) as e:
        return "sync_property refused a valid request: %s: %s" % (type(e).__name__, e)
    stmts = lambda mod: [n for n in ast.walk(mod) if isinstance(n, (ast.AnnAssign, ast.Assign, ast.arg)) and not isinstance(getattr(n, "value", None), ast.arg)]
    s0, s1 = [_dump(n) for n in stmts(before)], [ast.unparse(n) for n in stmts(out)]
    s0t = [ast.unparse(n) for n in stmts(before)]
    if len(s0t) != len(s1):
        return "number of statements changed: %r -> %r" % (s0t, s1)
    changed = [i for i in range(len(s1)) if s0t[i] != s1[i]]
    if len(changed) != 1:
        return "%d statements changed (exactly the selected one must): %r -> %r" % (len(changed), s0t, s1)
    want = "a0: %s" % ("Optional[int]" if wrap else "int")
    if s1[changed[0]] != want and not s1[changed[0]].startswith(want + " = "):
        return "selected attribute renders as %r, expected %r" % (s1[changed[0]], want)
    return ""


ob("C13", "K4.duplicate_paths", {"kind": R(0, len(DUP_SRC) - 1), "has_value": BOOL, "wrap": BOOL, "from_param": BOOL}, enum=True, T=300, tpath=60, funcs=FUNCS,
   bound="output modules in which several nodes answer to the dotted path K.a0 (class defined in both branches of an if/else or try/except, nested namesake class, "
         "attribute annotated twice): exactly one statement of the file changes and it becomes the input property")(sync_dup)
ob("C13", "K3.input_eval.values", {"nvals": R(3, 3), "target_kind": R(0, 1), "nargs": R(2, 2), "ndefaults": R(0, 2), "t": R(0, 1), "has_self": R(0, 1), "vset": R(1, len(VALSETS) - 1)}, enum=True,
   T=600, tpath=60, funcs=FUNCS + ["cdd.shared.ast_utils.it2literal"],
   assumes=["shim: eval in cdd.compound.sync_properties runs the real builtin outside the tracer (see K3.input_eval)"],
   bound="--input-eval with evaluated values %r (repeated members, members that compare equal across types such as 0/False and 1/1.0, unsorted members): the target receives the Literal of "
         "exactly the evaluated members, in order" % (VALSETS[1:],))(sync_eval)


# K5: the target is a KEYWORD-ONLY parameter: positional defaults and the other keyword-only defaults are untouched -------------------------------------------
def sync_kwonly(npos, npd, nkw, j, same_name, has_value, wrap):
    from cdd.compound.sync_properties import sync_property
    from cdd.shared.source_transformer import ast_parse

    if npd > npos or j >= nkw:
        return ""
    pos = ["p%d" % i for i in range(npos)]
    pos_src = [n if i < npos - npd else "%s=%d" % (n, 80 + i) for i, n in enumerate(pos)]
    kws = ["k%d" % i for i in range(nkw)]
    kw_src = ["%s=%d.5" % (n, i) for i, n in enumerate(kws)]
    src = "def connect(%s):\n    return 1\n" % ", ".join(pos_src + ["*"] + kw_src)
    in_name = kws[j] if same_name else "fresh"
    in_src = "class Config(object):\n    %s: int%s\n" % (in_name, " = 30" if has_value else "")
    input_ast, output_ast, before = ast_parse(in_src, filename="<in>"), ast_parse(src, filename="<out>"), ast.parse(src)
    try:
        out = sync_property(False, "Config." + in_name, input_ast, "<in>", "connect." + kws[j], "Optional[{output_param}]" if wrap else None, output_ast)
    except (AssertionError, NotImplementedError) as e:
        return "sync_property refused a valid request: %s: %s" % (type(e).__name__, e)
    f0, f1 = before.body[0], out.body[0]
    if [a.arg for a in f1.args.args] != pos or [_dump(a) for a in f0.args.args] != [_dump(a) for a in f1.args.args]:
        return "a positional parameter changed: %s -> %s" % (ast.unparse(f0.args), ast.unparse(f1.args))
    if [ast.unparse(d) for d in f0.args.defaults] != [ast.unparse(d) for d in f1.args.defaults]:
        return "default of ANOTHER (positional) parameter changed: %r -> %r" % ([ast.unparse(d) for d in f0.args.defaults], [ast.unparse(d) for d in f1.args.defaults])
    if len(f1.args.kwonlyargs) != nkw or len(f1.args.kw_defaults) != nkw:
        return "number of keyword-only parameters/defaults changed: %s" % ast.unparse(f1.args)
    for i in range(nkw):
        if i == j:
            want = "%s: %s" % (in_name, "Optional[int]" if wrap else "int")
            if ast.unparse(f1.args.kwonlyargs[i]) != want:
                return "the keyword-only target renders as %r, expected %r" % (ast.unparse(f1.args.kwonlyargs[i]), want)
        else:
            if _dump(f0.args.kwonlyargs[i]) != _dump(f1.args.kwonlyargs[i]) or ast.unparse(f0.args.kw_defaults[i]) != ast.unparse(f1.args.kw_defaults[i]):
                return "another keyword-only parameter or its default changed: %s -> %s" % (ast.unparse(f0.args), ast.unparse(f1.args))
    return ""


ob("C13", "K5.kwonly_target", {"npos": R(0, 2), "npd": R(0, 2), "nkw": R(1, 3), "j": R(0, 2), "same_name": BOOL, "has_value": BOOL, "wrap": BOOL}, enum=True, pre="npd <= npos and j < nkw",
   T=600, funcs=FUNCS, bound="function with 0..2 positional parameters (0..2 of them defaulted) and 1..3 defaulted keyword-only parameters; the target is ANY keyword-only parameter; input = class "
   "attribute with the same or another name, with/without value, wrap on/off (solver-enumerated): positional parameters and defaults untouched, the other keyword-only parameters and defaults "
   "untouched, the target takes the input's name and annotation")(sync_kwonly)
