"""C19 - gen exports exactly what it generated and never overwrites (kernel; DESIGN.md section 6, C19)."""
import ast
from collections import OrderedDict

from chx.ob import BOOL, CP, PR, R, U, known_active, ob

FUNCS = ["cdd.compound.gen_utils.get_functions_and_classes", "cdd.compound.gen_utils.get_emit_kwarg", "cdd.shared.pure_utils.ensure_valid_identifier",
         "cdd.shared.emit.utils.emitter_utils.get_emitter", "cdd.shared.parse.utils.parser_utils.get_parser"]
ASSUMPTIONS = ["kernel: the part of gen that decides WHICH names are generated and exported (get_functions_and_classes + get_emit_kwarg) runs before any "
               "text is rendered; the text tail of gen_module (__all__ assignment, import ordering, compile) is checked concretely on the replayed witness only",
               "entry names are drawn from a finite alphabet (they are realised by print/format and ensure_valid_identifier's C helpers): solver-enumerated"]
ALPHA = "aif_9.\u00e9"
TPLS = ("{name}", "{name}Config", "Cfg{name}")
KINDS = ("class_", "function", "argparse_function", "sqlalchemy", "sqlalchemy_table", "json_schema")
SRC = "class %s(object):\n    '''\n    Doc.\n\n    :cvar a: an a\n    '''\n    a: int = 5\n"


def ch(i):
    c = ALPHA[0]
    for k in range(1, len(ALPHA)):
        if i == k:
            c = ALPHA[k]
    return c


def emitted_name(kind, node):
    if kind in ("class_", "function", "argparse_function", "sqlalchemy"):
        return node.name
    if kind == "sqlalchemy_table":
        return node.targets[0].id if isinstance(node, ast.Assign) else getattr(node, "name", None)
    return None


def export_names(kind, tpl, n, i0, i1, j0, j1):
    from cdd.compound.gen_utils import get_functions_and_classes
    from cdd.shared.pure_utils import ensure_valid_identifier

    names = [ch(i0) + ch(i1), ch(j0) + ch(j1)][:n]
    if n == 2 and names[0] == names[1]:
        return ""
    mapping = [(nm, ast.parse(SRC % "Src%d" % k).body[0]) for k, nm in enumerate(names)]
    all_ = []
    name_tpl = TPLS[0]
    for k in (1, 2):
        if tpl == k:
            name_tpl = TPLS[k]
    emit_name = KINDS[0]
    for k in range(1, len(KINDS)):
        if kind == k:
            emit_name = KINDS[k]
    import contextlib
    import io

    with contextlib.redirect_stdout(io.StringIO()):
        nodes = list(get_functions_and_classes([], False, False, emit_name, all_, iter(mapping), name_tpl, True, "class"))
    if len(nodes) != n or len(all_) != n:
        return "generated %d symbols and %d __all__ entries for %d input entries" % (len(nodes), len(all_), n)
    for k in range(n):
        templated = name_tpl.format(name=names[k])
        if templated.isascii() and templated.isidentifier() and ensure_valid_identifier(templated) == templated and all_[k] != templated:
            return "__all__ entry %r is not the templated name %r" % (all_[k], templated)
        got = emitted_name(emit_name, nodes[k])
        if got is not None and emit_name != "sqlalchemy_table" and emit_name != "sqlalchemy" and got != all_[k]:
            return "emitted symbol %r but exported %r" % (got, all_[k])
        if not all_[k].isidentifier():
            return "__all__ entry %r is not an identifier" % (all_[k],)
    return ""


for _k, _kind in enumerate(KINDS):
    for _tp in range(len(TPLS)):
        ob("C19", "K1.exports.%s.t%d" % (_kind, _tp), {"kind": R(_k, _k), "tpl": R(_tp, _tp), "n": R(1, 1), "i0": R(0, 6), "i1": R(0, 6), "j0": R(0, 0), "j1": R(0, 0)},
           tier="quick" if _kind in ("class_", "function", "argparse_function") and _tp < 2 else "thorough", T=400, tpath=60, funcs=FUNCS,
           bound="one input entry whose name is ANY 2 characters over %r, name template %r, emit kind %s (solver-enumerated)" % (ALPHA, TPLS[_tp], _kind))(export_names)
    ob("C19", "K1.exports2.%s" % _kind, {"kind": R(_k, _k), "tpl": R(1, 1), "n": R(2, 2), "i0": R(0, 0), "i1": R(1, 1), "j0": R(0, 6), "j1": R(0, 6)},
       tier="quick" if _kind == "class_" else "thorough", T=400, tpath=60, funcs=FUNCS,
       bound="two input entries: 'ai' and ANY 2 characters over %r (distinct), template '{name}Config', emit kind %s" % (ALPHA, _kind))(export_names)


# K2: the destructive-operation guard, with the file system as a symbolic stub ----------------------------------------------------
def no_clobber(exists, phase):
    import cdd.__main__ as m

    called = []
    real_isfile, real_gen = m.path.isfile, m.gen

    class P:  # `path` namespace seen by cdd.__main__ : isfile answers per the solver, the rest is the real os.path
        def __getattr__(self, k):
            import os

            return getattr(os.path, k)

        def isfile(self, f):
            return exists if f == "/nonexistent/out.py" else real_isfile(f)

    saved = m.__dict__["path"]
    m.__dict__["path"], m.__dict__["gen"] = P(), (lambda **kw: called.append(kw))
    try:
        try:
            m.main(["gen", "--name-tpl", "{name}Config", "--input-mapping", "cdd.tests.mocks.classes", "--emit", "class",
                    "--output-filename", "/nonexistent/out.py", "--phase", str(phase)])
            raised = None
        except (IOError, OSError) as e:
            raised = e
        except SystemExit:
            return ""
    finally:
        m.__dict__["path"], m.__dict__["gen"] = saved, real_gen
    if exists and phase == 0:
        if raised is None or called:
            return "gen ran although the output file exists (phase 0): refused=%s, gen called=%s" % (raised is not None, bool(called))
    elif raised is not None or len(called) != 1:
        return "gen did not run although the output file does not exist / a later phase was asked"
    return ""


ob("C19", "K2.no_clobber", {"exists": BOOL, "phase": R(0, 1)}, T=120, funcs=["cdd.__main__.main"],
   bound="cdd.__main__.main(['gen', ...]) with os.path.isfile(output) answered by the solver and gen() monitored; phases 0/1")(no_clobber)


# K3: the module gen assembles defines one symbol per entry and __all__ lists exactly those, with import inference on/off ---------
SRC2 = "class %s(object):\n    \'\'\'\n    Doc.\n\n    :cvar a: an a\n    \'\'\'\n    a: Optional[int] = 5\n"


PREPENDS = (None, "import os\n", "from __future__ import annotations\n", "import os\nfrom __future__ import annotations\n", '"""Doc."""\nimport os\n',
            "from Pkg import Image\nimport sys\n")
IMPORTS = ("", "from __future__ import division\n", "from . import sibling\nfrom __future__ import division\n", "import json\nfrom Pkg import Image\nfrom __future__ import annotations\n")


def module_defines(kind, infer, n, i0, i1, prep=0, imp=0):
    import contextlib
    import io

    from cdd.compound.gen_utils import gen_module

    names = ["Alpha", ch(i0) + ch(i1)][:n] if n == 2 else [ch(i0) + ch(i1)]
    if n == 2 and names[0] == names[1]:
        return ""
    mapping = [(nm, ast.parse(SRC2 % ("Src%d" % k)).body[0]) for k, nm in enumerate(names)]
    emit_name = KINDS[0]
    for k in (1, 2):
        if kind == k:
            emit_name = KINDS[k]
    with contextlib.redirect_stdout(io.StringIO()):
        try:
            mod = gen_module(decorator_list=[], emit_and_infer_imports=infer, emit_call=False, emit_default_doc=False, emit_name=emit_name,
                             functions_and_classes=None, imports="", input_mapping_it=iter(mapping), name_tpl="{name}Cfg", no_word_wrap=True,
                             parse_name="class", prepend=None) if not (prep or imp) else gen_module(
                decorator_list=[], emit_and_infer_imports=infer, emit_call=False, emit_default_doc=False, emit_name=emit_name, functions_and_classes=None,
                imports=_pick(IMPORTS, imp), input_mapping_it=iter(mapping), name_tpl="{name}Cfg", no_word_wrap=True, parse_name="class", prepend=_pick(PREPENDS, prep))
        except Exception as e:
            return "gen_module raised %s: %s" % (type(e).__name__, e)
    defined = [nd.name for nd in mod.body if isinstance(nd, (ast.ClassDef, ast.FunctionDef))]
    alls = []
    for nd in mod.body:
        if isinstance(nd, ast.Assign) and any(isinstance(t, ast.Name) and t.id == "__all__" for t in nd.targets):
            alls = [e.value for e in nd.value.elts]
    if len(defined) != n:
        return "the module defines %r for %d input entries" % (defined, n)
    if sorted(alls) != sorted(defined):
        return "__all__ %r does not list exactly the defined symbols %r" % (alls, defined)
    uses_optional = any(isinstance(x, ast.Name) and x.id == "Optional" for x in ast.walk(mod))
    if infer and uses_optional and not any(isinstance(nd, ast.ImportFrom) and nd.module == "typing" for nd in mod.body):
        return "Optional is used but typing is not imported although import inference is on"
    try:
        compile(mod, "<gen>", "exec")
        if prep or imp:  # the file gen writes is the rendering of this module: it must compile as TEXT too (`from __future__` placement is only checked there)
            from cdd.shared.source_transformer import to_code

            compile(to_code(mod), "<gen>", "exec")
    except Exception as e:
        return "the generated module does not compile: %s" % e
    if prep or imp:
        have = [ast.unparse(nd) for nd in mod.body if isinstance(nd, (ast.Import, ast.ImportFrom))]
        for nd in ast.parse((_pick(PREPENDS, prep) or "") + _pick(IMPORTS, imp)).body:
            if isinstance(nd, (ast.Import, ast.ImportFrom)) and ast.unparse(nd) not in have:
                return "the requested import %r is missing from the generated module" % ast.unparse(nd)
    return ""


def _pick(options, i):
    v = options[0]
    for k in range(1, len(options)):
        if i == k:
            v = options[k]
    return v


def _md(kind, infer, n, i0, i1, prep=0, imp=0):
    from chx.shim import fix_bool, fix_int, untraced

    a = (fix_int(kind, 0, 2), fix_bool(infer), fix_int(n, 1, 2), fix_int(i0, 0, len(ALPHA) - 1), fix_int(i1, 0, len(ALPHA) - 1), fix_int(prep, 0, len(PREPENDS) - 1), fix_int(imp, 0, len(IMPORTS) - 1))
    return untraced(lambda: module_defines(*a))


def _ip(kind, infer, mask):
    from chx.shim import fix_bool, fix_int, untraced

    a = (fix_int(kind, 0, len(K4_KINDS) - 1), fix_bool(infer), fix_int(mask, 1, 2 ** len(ATTRS) - 1))
    return untraced(lambda: interface_preserved(*a))


SOLVER_ENUM = "SOLVER-ENUMERATED: every argument is a selector made concrete by a fork (chx.shim.fix_bool/fix_int); the real code then runs untraced"
ob("C19", "K3.module_defines.quick", {"kind": R(0, 2), "infer": BOOL, "n": R(1, 2), "i0": R(0, 0), "i1": R(0, 1)}, T=400, tpath=60,
   funcs=["cdd.compound.gen_utils.gen_module", "cdd.compound.gen_utils.get_functions_and_classes", "cdd.shared.ast_utils.infer_imports", "cdd.shared.ast_utils.optimise_imports"],
   bound="gen_module on 1-2 class entries using Optional[int] (second name 'aa'/'ai'), emit kind class/function/argparse, --emit-and-infer-imports on/off "
         "(solver-enumerated): one defined symbol per entry, __all__ == defined, typing imported when inferring, module compiles")(_md)
ob("C19", "K3.module_defines", {"kind": R(0, 2), "infer": BOOL, "n": R(1, 2), "i0": R(0, 2), "i1": R(0, 5)}, T=1500, tpath=60, tier="thorough",
   funcs=["cdd.compound.gen_utils.gen_module", "cdd.compound.gen_utils.get_functions_and_classes", "cdd.shared.ast_utils.infer_imports", "cdd.shared.ast_utils.optimise_imports"],
   bound="gen_module on 1-2 class entries using Optional[int] (names over the finite alphabet), emit kind class/function/argparse, --emit-and-infer-imports on/off "
         "(solver-enumerated): one defined symbol per entry, __all__ == defined, typing imported when inferring, module compiles")(_md)
ob("C19", "K3.module_prepend", {"kind": R(0, 2), "infer": BOOL, "n": R(1, 1), "i0": R(0, 0), "i1": R(0, 0), "prep": R(0, len(PREPENDS) - 1), "imp": R(0, len(IMPORTS) - 1)},
   pre="prep + imp > 0", T=1500, tpath=60,
   funcs=["cdd.compound.gen_utils.gen_module", "cdd.compound.gen_utils.get_functions_and_classes", "cdd.shared.ast_utils.infer_imports", "cdd.shared.ast_utils.optimise_imports"],
   bound="gen_module with --prepend in %r and --imports-from-file content in %r (plain imports, relative imports, capitalised packages and `from __future__` lines in any order), "
         "import inference on/off, 3 emit kinds (solver-enumerated): the module and its rendered text compile, every requested import is present, __all__ == defined" % (PREPENDS, IMPORTS))(_md)


# K4: each generated symbol, parsed back, has the interface of its source entry ---------------------------------------------------------
ATTRS = (("a", "Optional[int]", "5", 5), ("b", "str", "'x y'", "x y"), ("c", "bool", "False", False), ("d", "float", "-0.5", -0.5), ("e", "Literal['p', 'q']", "'p'", "p"),
         ("f", "int", "-3", -3))
K4_KINDS = ("class_", "function", "argparse_function", "pydantic")


def interface_preserved(kind, infer, mask):
    import contextlib
    import io

    from chx.domain import ir_equiv
    from cdd.compound.gen_utils import gen_module

    chosen = [t for i, t in enumerate(ATTRS) if mask & (1 << i)]
    if not chosen:
        return ""
    src = "class Src(object):\n    '''\n    Doc of it.\n\n" + "".join("    :cvar %s: the %s\n" % (n, n) for n, _, _, _ in chosen) + "    '''\n" + "".join(
        "    %s: %s = %s\n" % (n, t, d) for n, t, d, _ in chosen)
    emit_name = _pick(K4_KINDS, kind)
    with contextlib.redirect_stdout(io.StringIO()):
        try:
            mod = gen_module(decorator_list=[], emit_and_infer_imports=infer, emit_call=False, emit_default_doc=False, emit_name=emit_name, functions_and_classes=None, imports="",
                             input_mapping_it=iter([("Alpha", ast.parse(src).body[0])]), name_tpl="{name}Cfg", no_word_wrap=True, parse_name="class", prepend=None)
        except Exception as e:
            return "gen_module raised %s: %s" % (type(e).__name__, e)
    syms = [nd for nd in mod.body if isinstance(nd, (ast.ClassDef, ast.FunctionDef))]
    if len(syms) != 1:
        return "expected one generated symbol, found %d" % len(syms)
    from cdd.shared.source_transformer import to_code

    node = ast.parse(to_code(syms[0])).body[0]  # what the written file contains
    try:
        if emit_name == "class_":
            import cdd.class_.parse as P

            back = P.class_(node)
        elif emit_name == "pydantic":
            import cdd.pydantic.parse as P

            back = P.pydantic(node)
        elif emit_name == "function":
            import cdd.function.parse as P

            back = P.function(node)
        else:
            import cdd.argparse_function.parse as P

            back = P.argparse_ast(node)
    except Exception as e:
        return "the generated %s cannot be parsed back: %s: %s" % (emit_name, type(e).__name__, e)
    want = {"params": OrderedDict((n, {"typ": t, "doc": "the %s" % n, "default": v}) for n, t, _, v in chosen), "returns": None, "doc": "Doc of it."}
    return ir_equiv(want, back, types=True, defaults=True, docs=True, header=False, returns=False)


for _k in range(len(K4_KINDS)):
    for _inf, _tier in ((0, "quick"), (1, "thorough")):
        ob("C19", "K4.interface_preserved.%s%s" % (K4_KINDS[_k].rstrip("_"), ".infer" if _inf else ""), {"kind": R(_k, _k), "infer": R(_inf, _inf), "mask": R(1, 2 ** len(ATTRS) - 1)},
           T=1200, tpath=60, tier=_tier,
           funcs=["cdd.compound.gen_utils.gen_module", "cdd.compound.gen_utils.get_functions_and_classes", "cdd.class_.parse.class_", "cdd.function.parse.function",
                  "cdd.argparse_function.parse.argparse_ast", "cdd.pydantic.parse.pydantic"],
           bound="one source class with ANY non-empty subset of the attributes %r, emit kind %s, import inference %s (solver-enumerated): the generated symbol, "
                 "rendered to text and parsed back with the matching parser, has the names, order, types, defaults and descriptions of the source entry"
                 % ([(n, t, d) for n, t, d, _ in ATTRS], K4_KINDS[_k], "on" if _inf else "off"))(_ip)


# K5: HISTORY - gen runs twice in one process (two modules generated one after the other): the second result is as good as the first -----------------------------
def gen_twice(kind1, kind2, infer1, infer2, same_names):
    d = module_defines(kind1, infer1, 1, 0, 0)
    if d:
        return "first gen: " + d
    d = module_defines(kind2, infer2, 1, 0, 0 if same_names else 1)
    if d:
        return "second gen in the same process (after a gen with inference %s): %s" % ("on" if infer1 else "off", d)
    return ""


ob("C19", "K5.gen_twice", {"kind1": R(0, 2), "kind2": R(0, 2), "infer1": BOOL, "infer2": BOOL, "same_names": BOOL}, enum=True, isolated=True, T=900,
   funcs=["cdd.compound.gen_utils.gen_module", "cdd.shared.ast_utils.infer_imports", "cdd.shared.ast_utils.optimise_imports"],
   bound="two gen_module calls in ONE process (emit kinds class/function/argparse each, import inference on/off each, same or different entry names; solver-enumerated): the second module "
         "also defines its symbol, lists it in __all__, imports typing when Optional is used and inference is on, and compiles")(gen_twice)


# K6: no-clobber with REAL files: however the existing output file is named on the command line, gen leaves it untouched ---------------------------------------
def no_clobber_real(spelling, emit):
    import contextlib
    import io
    import shutil
    import sys
    import tempfile

    root = os.path.realpath(tempfile.mkdtemp(prefix="chx_c19_%d_" % os.getpid()))
    home, cwd = os.path.join(root, "home"), os.path.join(root, "cwd")
    os.makedirs(home)
    os.makedirs(os.path.join(cwd, "sub"))
    with open(os.path.join(root, "inmod19.py"), "wt") as f:
        f.write("class Src(object):\n    '''\n    Doc of it.\n\n    :cvar a: the a\n    '''\n\n    a: int = 5\n\n\ninput_map = {'Alpha': Src}\n")
    # (where the file really is, how the command line names it)
    real, arg = ((os.path.join(cwd, "models.py"), os.path.join(cwd, "models.py")), (os.path.join(home, "models.py"), "~/models.py"), (os.path.join(cwd, "models.py"), "models.py"),
                 (os.path.join(cwd, "models.py"), "./sub/../models.py"), (os.path.join(home, "models.py"), "$HOME/models.py"), (os.path.join(cwd, "models.py"), os.path.join(cwd, "sub", "..", "models.py")))[spelling]
    sentinel = "# precious hand-written file\nX = 1\n"
    with open(real, "wt") as f:
        f.write(sentinel)
    saved = os.environ.get("HOME"), os.getcwd()
    os.environ["HOME"] = home
    os.chdir(cwd)
    sys.path.insert(0, root)
    try:
        import cdd.__main__ as m

        with contextlib.redirect_stdout(io.StringIO()), contextlib.redirect_stderr(io.StringIO()):
            try:
                m.main(["gen", "--name-tpl", "{name}Config", "--input-mapping", "inmod19.input_map", "--emit", ("class", "function", "argparse")[emit], "--parse", "class",
                        "--output-filename", arg])
            except (Exception, SystemExit):
                pass
        with open(real, "rt") as f:
            after = f.read()
    finally:
        sys.path.remove(root)
        sys.modules.pop("inmod19", None)
        os.chdir(saved[1])
        if saved[0] is None:
            os.environ.pop("HOME", None)
        else:
            os.environ["HOME"] = saved[0]
        shutil.rmtree(root, ignore_errors=True)
    if after != sentinel:
        return "gen modified an existing output file named %r on the command line (%d -> %d bytes)" % (arg, len(sentinel), len(after))
    return ""


import os  # noqa: E402

ob("C19", "K6.no_clobber_real", {"spelling": R(0, 5), "emit": R(0, 2)}, enum=True, isolated=True, T=900, funcs=["cdd.__main__.main", "cdd.compound.gen.gen", "cdd.compound.gen_utils.gen_file"],
   bound="cdd.__main__.main(['gen', ...]) with REAL files (fresh interpreter per path): the output file exists and is named on the command line by its absolute path / '~/models.py' / a relative "
         "path / a path with '..' / '$HOME/models.py' / an absolute path with '..'; emit kind class/function/argparse (solver-enumerated): whatever the command does, the existing file's bytes are unchanged")(no_clobber_real)
