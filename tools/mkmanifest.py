#!/usr/bin/env python3
"""Regenerate /verif/MANIFEST.json from the table below (kept in one place so it stays valid)."""
import json
import os

HERE = os.path.dirname(os.path.dirname(os.path.abspath(__file__)))

TRUST = ("Trusted base: crosshair-tool 0.0.110 (patched by chx/chfix.py, patches listed in evidence), z3 5.1.0, CPython 3.12.1. "
         "A verdict is claimed only for obligations whose path tree was exhausted ('confirmed'); timeouts/unknown are reported as "
         "inconclusive and never as success. Every counterexample is replayed on the unmodified code in a plain interpreter before a "
         "VIOLATION line is printed. ")

CLAIMED = {
    # id: (level text, note, technique)
}

NOT_APPLICABLE = {
    "C04": "oracle is CPython's own compiler/runtime (compile, exec, inspect.signature, argparse) on the emitted program; the program must be concrete, so a solver could only enumerate concrete programs, which this family excludes as the deciding step (DESIGN.md section 7); the AST-visible half is decided under C02",
    "C18": "no data input: the quantifier is a finite set of deterministic import histories decided only by running CPython's import machinery; an SMT model of importlib was prototyped (z3, no answer in 20 min) and would verify a hand-written model, not the real code (DESIGN.md section 7)",
}


def load_claims():
    p = os.path.join(HERE, "tools", "claims.json")
    return json.load(open(p))


def main():
    claims = load_claims()
    props = [json.loads(l)["id"] for l in open(os.path.join(HERE, "properties.jsonl"))]
    checks = []
    na = []
    for pid in props:
        if pid in claims:
            c = claims[pid]
            checks.append({
                "property_id": pid,
                "quick_cmd": "./check %s --tier quick" % pid,
                "thorough_cmd": "./check %s --tier thorough" % pid,
                "evidence_file": "/verif/evidence/%s.json" % pid,
                "replay_cmd_template": "./check %s --replay {path}" % pid,
                "engine": "crosshair",
                "level_claimed": {"category": "other", "text": c["text"], "design_ref": c.get("design_ref", "DESIGN.md section 6, " + pid)},
                "level_note": TRUST + c.get("note", ""),
                "technique": c.get("technique", "bounded symbolic execution of the real Python functions with CrossHair (z3): contract arguments are solver variables, verdict = path tree exhausted"),
            })
        else:
            na.append({"property_id": pid, "reason": NOT_APPLICABLE.get(pid) or claims.get("_pending", {}).get(pid) or "check not built yet in this round (work in progress); will be claimed or declared not applicable with a reason"})
    m = {
        "version": 1,
        "setup_cmd": "./setup.sh",
        "hooks": {"guard": "CDD_PYTHON_VERIF", "enable": "no source hooks: instrumentation (fuel counters, solver-chosen set order, eval/file-system monitors) is produced at check time from /repo's current source, in memory", "baseline_off_cmd": "cd /repo && /venv/bin/python -m pytest -q -p no:cacheprovider --timeout=900", "source_commits": [], "add_only": True},
        "engines": [{"name": "crosshair", "path": "/verif/chx", "serves_properties": [c["property_id"] for c in checks], "kind_free_text": "CrossHair 0.0.110 symbolic execution of the real /repo functions (z3 5.1.0), one OS process per obligation, concrete replay of every counterexample"}],
        "checks": checks,
        "not_applicable": na,
        "notes": "See DESIGN.md. ./check <ID> --tier quick|thorough; evidence in evidence/<ID>.json; known findings in known_findings.json.",
    }
    with open(os.path.join(HERE, "MANIFEST.json"), "w") as f:
        json.dump(m, f, indent=1)
    print("claimed:", [c["property_id"] for c in checks], "na:", [x["property_id"] for x in na])


if __name__ == "__main__":
    main()
