#!/usr/bin/env python3-vt
"""validate MANIFEST.json and every evidence file against the schemas in /root/.vp (needs jsonschema: run with python3-vt)"""
import glob, json, sys
import jsonschema
ms = json.load(open("/root/.vp/MANIFEST.schema.json")); es = json.load(open("/root/.vp/EVIDENCE.schema.json"))
m = json.load(open("/verif/MANIFEST.json")); jsonschema.validate(m, ms)
ids = {c["property_id"] for c in m["checks"]} | {n["property_id"] for n in m.get("not_applicable", [])}
props = [json.loads(l)["id"] for l in open("/verif/properties.jsonl")]
assert ids == set(props), (ids ^ set(props))
bad = 0
for c in m["checks"]:
    f = c["evidence_file"]
    try:
        e = json.load(open(f)); jsonschema.validate(e, es)
        cov = e["coverage"]
        print("%s ok tier=%s obligations=%d discharged=%d paths=%d nontrivial=%d wall=%.0fs violations=%d %s" % (
            c["property_id"], e["tier"], cov["obligations"], cov["discharged"], cov["evaluations"], cov["distinct_nontrivial"], e["wall_s"], e.get("violations", 0), cov.get("verdict_counts")))
    except Exception as ex:
        bad += 1; print(c["property_id"], "INVALID/MISSING", str(ex)[:200])
sys.exit(1 if bad else 0)
