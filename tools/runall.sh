#!/bin/bash
# tools/runall.sh [tier]  : run every claimed check sequentially, log to /tmp/runall_<tier>/<ID>.log, print one summary line each
T=${1:-quick}; mkdir -p /tmp/runall_$T; cd /verif
for p in $(python3 -c "import json;print(' '.join(c['property_id'] for c in json.load(open('/verif/MANIFEST.json'))['checks']))"); do
  s=$(date +%s); ./check $p --tier $T > /tmp/runall_$T/$p.log 2>&1; rc=$?; e=$(date +%s)
  echo "$p rc=$rc $((e-s))s $(grep '^SUMMARY' /tmp/runall_$T/$p.log | cut -c1-160)"
done
