#!/bin/bash
# tools/seedeval2.sh <WT-ID> <PROP> [check args...] : like seedeval.sh but never touches /repo - the check runs against the sub-agent's
# scratch worktree itself (CHX_REPO), so it can run while other checks use /repo.
ID=$1; PROP=$2; shift 2
W=/tmp/wt/$ID
[ -f $W/_seed/patch.diff ] || { echo "no patch"; exit 1; }
cd $W
/venv/bin/python _seed/demo.py >/tmp/wt/$ID.demo_with.txt 2>&1; RC1=$?
git diff -- cdd > /tmp/wt/$ID.patch; git apply -R /tmp/wt/$ID.patch; /venv/bin/python _seed/demo.py >/tmp/wt/$ID.demo_without.txt 2>&1; RC0=$?; git apply /tmp/wt/$ID.patch
echo "demo with=$RC1 without=$RC0; tests WITH change: $(/venv/bin/python -m pytest -q -p no:cacheprovider --timeout=900 2>&1 | tail -1)"
mkdir -p /verif/seeded/$ID; git diff -- cdd > /verif/seeded/$ID/patch.diff; cp _seed/demo.py /verif/seeded/$ID/demo.py; cp _seed/notes.txt /verif/seeded/$ID/notes.txt 2>/dev/null
cd /verif
CHX_REPO=$W ./check $PROP --no-evidence "$@" 2>/dev/null > /tmp/wt/$ID.check.txt; RC=$?
grep -c " confirmed " /tmp/wt/$ID.check.txt; grep "VIOLATION\|^SUMMARY" /tmp/wt/$ID.check.txt | head -4 | cut -c1-250; grep "counterexample" /tmp/wt/$ID.check.txt | head -3 | cut -c1-300
echo "check exit=$RC"
