#!/bin/bash
# tools/mut.sh <patch.diff> <PROP> [check args]   apply a mutant to /repo, run the check, always revert
P=$(realpath "$1"); shift
git -C /repo apply "$P" || { echo "patch does not apply"; exit 9; }
trap 'git -C /repo checkout -- . ' EXIT
cd /verif && ./check "$@" --no-evidence
echo "exit=$?"
