#!/usr/bin/env python3
"""print a python file without docstrings/blank lines, with line numbers (reading aid)"""
import ast, sys
src = open(sys.argv[1]).read()
lo = int(sys.argv[2]) if len(sys.argv) > 2 else 1
hi = int(sys.argv[3]) if len(sys.argv) > 3 else 10**9
tree = ast.parse(src)
skip = set()
for n in ast.walk(tree):
    if isinstance(n, (ast.FunctionDef, ast.AsyncFunctionDef, ast.ClassDef, ast.Module)) and n.body and isinstance(n.body[0], ast.Expr) and isinstance(getattr(n.body[0], "value", None), ast.Constant) and isinstance(n.body[0].value.value, str):
        d = n.body[0]
        skip.update(range(d.lineno, d.end_lineno + 1))
for i, l in enumerate(src.split("\n"), 1):
    if lo <= i <= hi and i not in skip and l.strip():
        print("%d:%s" % (i, l))
