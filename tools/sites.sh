#!/bin/bash
# tools/sites.sh <module> <prop> <oid> [T]  -> histogram of /repo (and harness) frames where symbolic values get realised
cd /verif
timeout $(( ${4:-30} * 3 + 60 )) .venv/bin/python -m chx.run_one "$1" "$2" "$3" --T "${4:-30}" --debug 2>&1 \
 | grep "Realized at" | grep -o "([a-zA-Z_<>]* [a-z_A-Z0-9]*\.py:[0-9]*)" | grep -v "builtinslib\|statespace\|core.py\|copyext\|copy.py\|run_one\|chxgen\|condition_parser\|tracers\|abcstring\|simplestructs" | sort | uniq -c | sort -rn | head -${5:-15}
