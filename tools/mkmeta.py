#!/usr/bin/env python3
"""tools/mkmeta.py <ID> <PROP> <initially> <needs> <caught_by> : write seeded/<ID>/meta.json"""
import json, sys
i, prop, initially, needs, caught = sys.argv[1:6]
json.dump({"property": prop, "needs": needs, "caught_by": caught, "initially": initially, "breaks": prop, "patch": "patch.diff",
           "demonstration": "demo.py (exit 0 without the change, 1 with it; verified in the scratch worktree)",
           "tests": "352 passed / 9 known failures with the change (same as baseline)",
           "ran": "tools/seedeval2.sh %s %s (demo with/without, test suite with, then ./check with CHX_REPO=<scratch worktree>, /repo untouched)" % (i, prop),
           "source": "fifth-round sub-agent: property text + scratch worktree + one-line descriptions of the earlier seeds of that property; asked for a different function and mechanism"},
          open("/verif/seeded/%s/meta.json" % i, "w"), indent=1)
