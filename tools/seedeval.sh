#!/bin/bash
# tools/seedeval.sh <ID> <PROP> [check args...]  : verify a sub-agent's seeded change in its scratch worktree, store it under seeded/, run the check on it
ID=$1; PROP=$2; shift 2
W=/tmp/wt/$ID; SID=${SID:-$ID}
[ -f $W/_seed/patch.diff ] || { echo "no patch"; exit 1; }
cd $W
echo "== demo WITH change:"; /venv/bin/python _seed/demo.py >/tmp/wt/$ID.demo_with.txt 2>&1; RC1=$?; tail -3 /tmp/wt/$ID.demo_with.txt | cut -c1-200; echo "rc=$RC1"
git stash -q; echo "== demo WITHOUT change:"; /venv/bin/python _seed/demo.py >/tmp/wt/$ID.demo_without.txt 2>&1; RC0=$?; tail -2 /tmp/wt/$ID.demo_without.txt | cut -c1-200; echo "rc=$RC0"; git stash pop -q
echo "== tests WITH change:"; /venv/bin/python -m pytest -q -p no:cacheprovider --timeout=900 2>&1 | tail -1 | tee /tmp/wt/$ID.tests.txt
mkdir -p /verif/seeded/$SID; git diff -- cdd > /verif/seeded/$SID/patch.diff; cp _seed/demo.py /verif/seeded/$SID/demo.py; cp _seed/notes.txt /verif/seeded/$SID/notes.txt 2>/dev/null
cd /verif
echo "== check on /repo with the change applied:"
git -C /repo apply /verif/seeded/$SID/patch.diff || { echo "PATCH DOES NOT APPLY to /repo"; exit 2; }
./check $PROP --no-evidence "$@" 2>/dev/null > /tmp/wt/$ID.check.txt; RC=$?
git -C /repo checkout -- .
grep -c " confirmed " /tmp/wt/$ID.check.txt; grep "VIOLATION\|^SUMMARY" /tmp/wt/$ID.check.txt | head -5 | cut -c1-250; grep "counterexample" /tmp/wt/$ID.check.txt | head -3 | cut -c1-300
echo "check exit=$RC demo_with=$RC1 demo_without=$RC0"
