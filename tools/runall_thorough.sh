#!/bin/bash
# sizing run of every thorough command (no evidence written): logs in /tmp/runall_thorough/
mkdir -p /tmp/runall_thorough; cd /verif
for p in ${@:-C06 C12 C13 C07 C19 C20 C10 C05 C08 C16 C03 C02 C01 C17 C11 C15 C14 C09}; do
  s=$(date +%s); ./check $p --tier thorough --no-evidence > /tmp/runall_thorough/$p.log 2>&1; rc=$?; e=$(date +%s)
  echo "$p rc=$rc $((e-s))s $(grep '^SUMMARY' /tmp/runall_thorough/$p.log | cut -c1-170)"
done
