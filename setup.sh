#!/bin/bash
# Build the overlay interpreter used by every check: /venv's Python 3.12 + crosshair-tool from the
# offline wheelhouse + a .pth that exposes /venv's site-packages and /repo.  Idempotent; safe to call
# concurrently (flock).  Nothing is fetched from a network.
set -e
V=/verif/.venv
exec 9>/verif/.venv.lock
flock 9
if [ ! -x "$V/bin/python" ] || ! "$V/bin/python" -c "import crosshair, z3, cdd" 2>/dev/null; then
  rm -rf "$V"
  /venv/bin/python -m venv "$V"
  SP=$("$V/bin/python" -c "import sysconfig; print(sysconfig.get_paths()['purelib'])")
  PIP_NO_INDEX=1 "$V/bin/pip" install -q --no-index --find-links /opt/veriftools/wheels crosshair-tool >/dev/null
  printf "import site; site.addsitedir('/venv/lib/python3.12/site-packages')\n/repo\n" > "$SP/_overlay.pth"
  "$V/bin/python" -c "import crosshair, z3, cdd; assert crosshair.__version__ == '0.0.110', crosshair.__version__"
fi
echo "setup ok: $("$V/bin/python" -c 'import crosshair,z3; print("crosshair", crosshair.__version__, "z3", z3.get_version_string())')"
