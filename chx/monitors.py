"""Recording stubs for code-execution sinks (C17) - module-global shadows, active inside one obligation body.

A /repo module resolves `eval`, `exec`, `compile`, `__import__`, `open`, `import_module`, `system`, `Popen` through its own
globals before builtins, so binding a stub there intercepts every *direct* call made by that module's code.  Under the engine
the `eval` stub does not evaluate (the real eval is a C boundary that would realise its argument): it records the argument and
then returns normally or raises NameError as chosen by the next solver boolean - the two continuations the call site
distinguishes.  In replay mode it records and then delegates to the real builtin, on the unmodified code.
"""
import builtins
from contextlib import contextmanager

from chx.shim import REPLAYING

SINKS = ("eval", "exec", "compile", "__import__", "import_module", "system", "popen", "Popen", "run", "call", "check_output", "socket")


#: modules the repo's own code imports lazily by literal name (grep import_module in cdd/): importing these is not "executing analysed code"
LIBRARY_IMPORTS = frozenset(("ast", "astor", "yaml", "black", "typing", "typing_extensions", "pydantic", "sqlalchemy", "json", "os"))


class Monitor:
    def __init__(self, coins=()):
        self.coins = list(coins)
        self.evals = []
        self.others = []

    def _eval(self, src, *a, **kw):
        self.evals.append(src)
        if REPLAYING():
            return builtins.eval(src, *a, **kw)
        coin = self.coins.pop(0) if self.coins else False
        if coin:
            raise NameError("name is not defined (nondeterministic eval stub)")
        return object

    def _sink(self, name):
        def stub(*a, **kw):
            if name in ("import_module", "__import__") and a and isinstance(a[0], str) and type(a[0]) is str and (a[0] in LIBRARY_IMPORTS or a[0].startswith("cdd.")):
                # a library named by a literal of the repo's own code (never derived from the analysed input): perform it, not a sink
                import importlib

                return (importlib.import_module if name == "import_module" else builtins.__import__)(*a, **kw)
            self.others.append((name, a[:1]))
            if REPLAYING() and name in ("compile", "__import__", "import_module"):
                import importlib

                return {"compile": builtins.compile, "__import__": builtins.__import__, "import_module": importlib.import_module}[name](*a, **kw)
            raise PermissionError("sink %s reached" % name)

        return stub

    def _open(self, file, mode="r", *a, **kw):
        if any(m in mode for m in "wax+"):
            self.others.append(("open-for-write", (file,)))
            raise PermissionError("open for write reached")
        return builtins.open(file, mode, *a, **kw)


@contextmanager
def monitored(modules, coins=()):
    mon = Monitor(coins)
    missing = object()
    saved = []
    for m in modules:
        for name in SINKS + ("open",):
            if name == "eval":
                stub = mon._eval
            elif name == "open":
                stub = mon._open
            else:
                if name not in m.__dict__ and name not in ("exec", "compile", "__import__"):
                    continue  # only shadow library names the module actually imported
                stub = mon._sink(name)
            saved.append((m, name, m.__dict__.get(name, missing)))
            m.__dict__[name] = stub
    try:
        yield mon
    finally:
        for m, name, old in saved:
            if old is missing:
                m.__dict__.pop(name, None)
            else:
                m.__dict__[name] = old


SAFE_EXTRA = ".,;[]'\"|/ `"


def unsafe_char(src):
    """first character of an eval argument outside the safe grammar (letters, digits, . , ; [ ] ' " | / space backtick)"""
    for ch in src:
        ok = ("a" <= ch <= "z") or ("A" <= ch <= "Z") or ("0" <= ch <= "9")
        if not ok:
            for s in SAFE_EXTRA:
                if ch == s:
                    ok = True
        if not ok:
            return ch
    return None
