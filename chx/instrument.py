"""In-memory instrumentation of /repo modules, regenerated from the current source on every run.

The current source file of a module is parsed, rewritten and compiled, and the resulting code objects
are swapped into the *live* function objects (`fn.__code__ = ...`), so every caller inside the harness
process sees the instrumented behaviour.  Nothing is written to /repo.  Two rewrites:

* fuel (C11): every `while` loop gets a per-activation iteration counter
      __fuelN = 0
      while cond:
          __fuelN += 1; __FUEL__.tick("<module>:<line>", __fuelN)
  `tick` raises FuelExhausted (and latches `FUEL.exhausted`) when the counter exceeds `FUEL.limit`.

* nd-order (C10): every iteration source and call argument `e` becomes `__nd__(e)`; `__nd__` is the
  identity except on a set/frozenset with >= 2 elements, whose elements it returns in an order picked
  by the next solver-chosen permutation index.  `sorted(...)`, `len`, `set`, `frozenset`, `isinstance`
  and membership tests are left alone (they are order-free).
"""
import ast
import itertools
import types


# ------------------------------------------------------------------------------------------------ fuel
class FuelExhausted(Exception):
    pass


class _Fuel:
    def __init__(self):
        self.limit = 10 ** 9
        self.exhausted = None
        self.max_seen = 0

    def reset(self, limit):
        self.limit = limit
        self.exhausted = None
        self.max_seen = 0

    def tick(self, where, n):
        if n > self.max_seen:
            self.max_seen = n
        if n > self.limit:
            self.exhausted = where
            raise FuelExhausted("%s: more than %d iterations of one loop activation" % (where, self.limit))


FUEL = _Fuel()


class _FuelT(ast.NodeTransformer):
    def __init__(self, modname):
        self.modname = modname
        self.n = 0
        self.sites = []

    def visit_While(self, node):
        self.generic_visit(node)
        self.n += 1
        var = "__fuel%d" % self.n
        where = "%s:%d" % (self.modname, node.lineno)
        self.sites.append(where)
        init = ast.parse("%s = 0" % var).body[0]
        inc = ast.parse("%s += 1" % var).body[0]
        tick = ast.parse("__FUEL__.tick(%r, %s)" % (where, var)).body[0]
        for n in (init, inc, tick):
            for sub in ast.walk(n):
                ast.copy_location(sub, node)
        node.body[:0] = [inc, tick]
        return [init, node]


# --------------------------------------------------------------------------------------------- nd order
class _ND:
    """solver-chosen iteration order for sets"""

    def __init__(self):
        self.reset(())

    def reset(self, choices, canonical=False):
        self.choices = list(choices)
        self.cursor = 0
        self.used = 0
        self.canonical = canonical

    def __call__(self, x):
        if type(x) in (set, frozenset) and len(x) >= 2:
            try:
                items = sorted(x, key=repr)
            except Exception:
                return x
            if self.canonical or self.cursor >= len(self.choices):
                return items
            k = self.choices[self.cursor]
            self.cursor += 1
            self.used += 1
            for i, p in enumerate(itertools.permutations(items)):
                if i >= 24:
                    break
                if k == i:  # comparison chain: CrossHair forks here, the index stays symbolic
                    return list(p)
            return items
        return x


ND = _ND()
_ORDER_FREE = ("sorted", "__nd__", "len", "isinstance", "frozenset", "set", "min", "max", "sum", "any", "all", "bool")


class _NdT(ast.NodeTransformer):
    def _w(self, e):
        return ast.copy_location(
            ast.Call(func=ast.copy_location(ast.Name("__nd__", ast.Load()), e), args=[e], keywords=[]), e
        )

    def visit_For(self, n):
        self.generic_visit(n)
        n.iter = self._w(n.iter)
        return n

    def visit_comprehension(self, n):
        self.generic_visit(n)
        n.iter = self._w(n.iter)
        return n

    def visit_Call(self, n):
        self.generic_visit(n)
        if isinstance(n.func, ast.Name) and n.func.id in _ORDER_FREE:
            if n.func.id in ("sorted", "min", "max") and any(k.arg == "key" for k in n.keywords) and n.args:
                # with a key function ties are broken by input order: order-free only if the keys are distinct
                n.args = [self._w(n.args[0])] + n.args[1:]
            return n
        n.args = [a if isinstance(a, ast.Starred) else self._w(a) for a in n.args]
        return n

    def visit_Starred(self, n):
        self.generic_visit(n)
        n.value = self._w(n.value)
        return n


# ----------------------------------------------------------------------------------------------- common
def _collect(code, out):
    for c in code.co_consts:
        if isinstance(c, types.CodeType):
            out[(c.co_name, c.co_firstlineno)] = c
            _collect(c, out)


def _swap(mod, transformer, global_name, global_value, tag):
    done = mod.__dict__.setdefault("__chx_instrumented__", set())
    if tag in done:
        return []
    with open(mod.__file__) as f:
        src = f.read()
    tree = transformer.visit(ast.parse(src))
    ast.fix_missing_locations(tree)
    code = compile(tree, mod.__file__, "exec")
    new = {}
    _collect(code, new)
    mod.__dict__[global_name] = global_value
    swapped = []
    seen = set()

    def consider(f):
        while hasattr(f, "__wrapped__"):
            f = f.__wrapped__
        if isinstance(f, (staticmethod, classmethod)):
            f = f.__func__
        if not isinstance(f, types.FunctionType) or id(f) in seen:
            return
        seen.add(id(f))
        if f.__code__.co_filename != mod.__file__:
            return
        key = (f.__code__.co_name, f.__code__.co_firstlineno)
        c = new.get(key)
        if c is not None and len(c.co_freevars) == len(f.__code__.co_freevars):
            f.__code__ = c
            swapped.append(f.__qualname__)

    for obj in list(mod.__dict__.values()):
        consider(obj)
        if isinstance(obj, type) and obj.__module__ == mod.__name__:
            for m in list(vars(obj).values()):
                consider(m)
    done.add(tag)
    return swapped


def instrument_fuel(mod):
    """returns the list of `while` sites instrumented in `mod`"""
    if "__chx_fuel_sites__" not in mod.__dict__:
        t = _FuelT(mod.__name__)
        _swap(mod, t, "__FUEL__", FUEL, "fuel")
        mod.__dict__["__chx_fuel_sites__"] = t.sites
    return mod.__dict__["__chx_fuel_sites__"]


def instrument_nd(mod):
    return _swap(mod, _NdT(), "__nd__", ND, "nd")
