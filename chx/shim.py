"""Module-global shims (DESIGN.md 2.1 item 6, section 5): rebinding a name in a /repo module's globals for
the duration of one obligation body.  Active only under CrossHair; in replay mode (CHX_REPLAY=1, set by
chx/replay.py) the context manager does nothing, so counterexamples are re-executed on the unmodified
code.  Every shim an obligation uses is listed in its `assumes`."""
import os
from contextlib import contextmanager

REPLAYING = lambda: os.environ.get("CHX_REPLAY") == "1"  # noqa: E731


@contextmanager
def shim(module, **names):
    if REPLAYING():
        yield
        return
    missing = object()
    old = {k: module.__dict__.get(k, missing) for k in names}
    module.__dict__.update(names)
    try:
        yield
    finally:
        for k, v in old.items():
            if v is missing:
                module.__dict__.pop(k, None)
            else:
                module.__dict__[k] = v
