"""Module-global shims (DESIGN.md 2.1 item 6, section 5): rebinding a name in a /repo module's globals for
the duration of one obligation body.  Active only under CrossHair; in replay mode (CHX_REPLAY=1, set by
chx/replay.py) the context manager does nothing, so counterexamples are re-executed on the unmodified
code.  Every shim an obligation uses is listed in its `assumes`."""
import os
from contextlib import contextmanager

REPLAYING = lambda: os.environ.get("CHX_REPLAY") == "1"  # noqa: E731


@contextmanager
def shim(module, **names):
    if REPLAYING():
        yield
        return
    missing = object()
    old = {k: module.__dict__.get(k, missing) for k in names}
    module.__dict__.update(names)
    try:
        yield
    finally:
        for k, v in old.items():
            if v is missing:
                module.__dict__.pop(k, None)
            else:
                module.__dict__[k] = v


def fix_bool(b):
    """a concrete Python bool equal to the (possibly symbolic) `b`: the engine forks here, once per value"""
    return True if b else False


def fix_int(v, lo, hi):
    """a concrete Python int equal to the (possibly symbolic) `v` in lo..hi: a comparison chain, the engine forks once per value"""
    out = lo
    for k in range(lo + 1, hi + 1):
        if v == k:
            out = k
    return out


def untraced(thunk):
    """run `thunk` outside the tracer.  ONLY for bodies whose arguments were all made concrete with fix_bool/fix_int: nothing symbolic flows in, so tracing
    would only slow the real code down (x10-x50); the path condition that selected the arguments is what the solver enumerates and exhausts."""
    if REPLAYING():
        return thunk()
    from crosshair.tracers import NoTracing

    with NoTracing():
        return thunk()
