"""Concrete re-execution of an obligation on the real code, without CrossHair tracing.

usage: python -m chx.replay <harness module> <prop> <oid> '<json args>'   ->  prints `REPLAY <json>`

`diag == ""` means the property held on this input.  An obligation may name a dedicated `replay=`
function (e.g. the unmodified function under a watchdog instead of the fuel-instrumented copy, or
fresh subprocesses under different PYTHONHASHSEEDs); otherwise its own body is the oracle.
"""
import importlib
import json
import os
import sys
import traceback


def main(argv=None):
    argv = argv or sys.argv[1:]
    module, prop, oid, args = argv[0], argv[1], argv[2], json.loads(argv[3])
    os.environ["CHX_REPLAY"] = "1"
    import cdd.class_.parse  # noqa: F401  import-order precondition, DESIGN.md 4.8

    from chx.ob import REGISTRY

    importlib.import_module(module)
    o = REGISTRY[(prop, oid)]
    fn = o.replay or o.fn
    out = {"args": args, "oracle": getattr(fn, "__name__", "?")}
    try:
        if o.engine == "direct":
            r = fn()
            diag = r.get("diag", "violation") if r.get("verdict") == "violation" else ""
        else:
            diag = fn(*[args[k] for k in o.args])
        out["diag"] = diag if isinstance(diag, str) else repr(diag)
    except Exception as e:
        out["diag"] = "EXC %s: %s" % (type(e).__name__, e)
        out["traceback"] = traceback.format_exc()[-2500:]
    print("REPLAY " + json.dumps(out, default=repr))


if __name__ == "__main__":
    main()
