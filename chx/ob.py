"""Obligation registry.

An *obligation* is a plain Python function over `int`/`bool` arguments that calls real functions of
/repo and returns a diagnostic string: "" means "the property held on this input", anything else says
what failed.  The runner (chx/run_one.py) turns it into a CrossHair contract

    pre:  <ranges of the arguments> and <extra pre> and not <known-finding regions>
    post: _ == ""

so that the arguments are solver variables.  Because the body is ordinary Python it is also the replay
oracle: a counterexample is re-executed by calling the very same function with the concrete values in
an interpreter without CrossHair (chx/replay.py), optionally through a dedicated `replay=` function
that drives the unmodified code when the body uses an instrumented copy.
"""
from dataclasses import dataclass, field
from typing import Callable, Dict, List, Optional, Tuple

import os as _os

#: root of the tree under test: /repo, or a scratch copy when CHX_REPO is set (used only by my own mutant/seed evaluation)
REPO = _os.environ.get("CHX_REPO", "/repo").rstrip("/")
MAXCP = 0x10FFFF


def R(lo, hi):
    """int in lo..hi inclusive"""
    return ("int", lo, hi)


CP = R(0, MAXCP)  # any Unicode code point
PR = R(32, 126)  # printable ASCII
AZ = R(97, 122)  # a..z
BOOL = ("bool",)


def STR(maxlen):
    """native symbolic str of length <= maxlen (symbolic length: use only for cheap kernels, DESIGN.md 2.3)"""
    return ("str", maxlen)


@dataclass
class Obligation:
    prop: str
    oid: str
    fn: Callable
    args: Dict[str, tuple]
    pre: str = "True"
    tier: str = "quick"  # "quick" obligations also run in the thorough tier
    T: float = 60.0  # per-condition CPU budget (s)
    tpath: Optional[float] = None  # per-path budget (s)
    funcs: List[str] = field(default_factory=list)  # /repo functions entered
    bound: str = ""  # the stated bound, in words
    assumes: List[str] = field(default_factory=list)  # stubs / shims / assumptions in force
    replay: Optional[Callable] = None  # concrete oracle on the unmodified code (default: fn itself)
    module: str = ""
    twin: bool = True  # run the reachability twin
    expect: str = "confirmed"  # verdict expected on the unchanged tree (documentation only)
    engine: str = "crosshair"  # "direct": fn() issues its own solver queries and returns a result dict

    def arg_pre(self) -> str:
        parts = []
        for name, t in self.args.items():
            if t[0] == "int":
                parts.append("%d <= %s <= %d" % (t[1], name, t[2]))
            elif t[0] == "str":
                parts.append("len(%s) <= %d" % (name, t[1]))
        return " and ".join(parts) or "True"

    def signature(self) -> str:
        return ", ".join(
            "%s: %s" % (n, {"bool": "bool", "int": "int", "str": "str"}[t[0]]) for n, t in self.args.items()
        )

    def domain_size(self) -> int:
        n = 1
        for t in self.args.values():
            n *= 2 if t[0] == "bool" else (sum(0x110000 ** k for k in range(t[1] + 1)) if t[0] == "str" else (t[2] - t[1] + 1))
        return n


REGISTRY: Dict[Tuple[str, str], Obligation] = {}


ENUM_DOC = ("SOLVER-ENUMERATED: every argument of this obligation is a selector (flag / index / small integer); each is made concrete by a fork under the engine "
            "(chx.shim.fix_bool/fix_int) and the real code then runs untraced at native speed; the verdict is the exhaustion of the argument space by the solver")


ISOLATED_DOC = ("ISOLATED: the body of every path runs in a FRESH interpreter (python -m chx.replay), because the obligation is about what an earlier call in the same process leaves "
                "behind; state left by the paths explored before (module tables, caches, mutable default arguments) therefore cannot leak into the verdict")


def _isolated_call(module, prop, oid, fixed, timeout=600):
    """run the obligation body for the concrete arguments `fixed` in a fresh interpreter; returns its diagnostic string"""
    import json
    import subprocess
    import sys

    env = dict(_os.environ, CHX_REPLAY="1", CHX_ISOLATED_CHILD="1")
    try:
        r = subprocess.run([sys.executable, "-m", "chx.replay", module, prop, oid, json.dumps(fixed)], capture_output=True, text=True, env=env, timeout=timeout)
    except subprocess.TimeoutExpired:
        return "HANG: the call did not return within %d s in a fresh interpreter" % timeout
    for line in r.stdout.splitlines():
        if line.startswith("REPLAY "):
            return json.loads(line[7:]).get("diag", "")
    return "EXC isolated run failed: " + (r.stderr or r.stdout)[-300:]


def _enumerated(fn, args, isolated=None):
    """wrap `fn` so that every argument is made concrete by a fork and the body then runs outside the tracer (only for selector-only obligations)"""
    names = list(args)

    def body(*a, **kwargs):
        from chx.shim import fix_bool, fix_int, untraced

        vals = dict(zip(names, a))
        vals.update(kwargs)
        fixed = {}
        for n, v in vals.items():
            t = args.get(n)
            if t is None:
                fixed[n] = v
            elif t[0] == "bool":
                fixed[n] = fix_bool(v)
            elif t[0] == "int":
                fixed[n] = fix_int(v, t[1], t[2])
            else:
                raise TypeError("enumerated obligations take int/bool selectors only")
        from chx.shim import REPLAYING

        if isolated and not _os.environ.get("CHX_ISOLATED_CHILD"):  # under the engine AND in the driver's replay: a fresh interpreter under the time budget
            return untraced(lambda: _isolated_call(isolated[0], isolated[1], isolated[2], fixed, isolated[3]))
        return untraced(lambda: fn(**fixed))

    body.__name__ = getattr(fn, "__name__", "body")
    body.__wrapped__ = fn
    return body


def ob(prop, oid, args, enum=False, isolated=False, **kw):
    """decorator: register `fn` as obligation `oid` of property `prop`; enum=True: selector-only obligation, see ENUM_DOC; isolated=True (with enum): see ISOLATED_DOC"""

    def deco(fn):
        if enum:
            kw["assumes"] = list(kw.get("assumes", [])) + [ENUM_DOC] + ([ISOLATED_DOC] if isolated else [])
        o = Obligation(prop=prop, oid=oid, fn=_enumerated(fn, dict(args), (fn.__module__, prop, oid, 600 if isolated is True else int(isolated)) if isolated else None) if enum else fn, args=dict(args), module=fn.__module__, **kw)
        key = (prop, oid)
        if key in REGISTRY:
            raise RuntimeError("duplicate obligation %s.%s" % key)
        REGISTRY[key] = o
        return fn

    return deco


def obligations(prop, tier):
    out = [o for (p, _), o in REGISTRY.items() if p == prop and (o.tier != "witness" or tier == "witness")]
    if tier == "witness":
        return out
    if tier == "quick":
        out = [o for o in out if o.tier == "quick"]
    return out


def U(*cs):
    """all arguments are code points (usable in extra preconditions)"""
    return all(0 <= c <= MAXCP for c in cs)


# ---------------------------------------------------------------------------------------- known findings
_KNOWN = None


def known_active(fid):
    """True when finding `fid` is listed in /verif/known_findings.json as a *class* finding and exclusions are
    not disabled.  Harness bodies use it to tolerate exactly the failure class of a recorded defect; the driver
    replays the finding's witness with CHX_NO_KNOWN=1 (exclusions off) to print KNOWN-FINDING while it still fails."""
    import json
    import os

    global _KNOWN
    if os.environ.get("CHX_NO_KNOWN") == "1":
        return False
    if _KNOWN is None:
        here = os.path.dirname(os.path.dirname(os.path.abspath(__file__)))
        with open(os.path.join(here, "known_findings.json")) as f:
            _KNOWN = {k["id"] for k in json.load(f).get("findings", []) if k.get("klass")}
    return fid in _KNOWN
