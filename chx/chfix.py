"""Workarounds for crosshair-tool 0.0.110 (DESIGN.md section 2.1).  Imported by the runner before any harness.

Patches 1-2 repair wrong answers of the engine; 3-5 only stop it from giving up symbolic values
(they can turn "Not confirmed" into a verdict, never the reverse).  The patch list is part of the
trusted base and is named in every evidence file (`PATCHES`).  `chx/selftest.py` re-checks each patch
against its minimal reproducer.
"""
import operator as _op

import crosshair.core_and_libs  # noqa: F401  (registers the library models and opcode patches)
from crosshair import core as _core
from crosshair import opcode_intercept as _oi
from crosshair import simplestructs as _ss
from crosshair import statespace as _sp
from crosshair.core import register_patch as _register_patch
from crosshair.libimpl import builtinslib as _bl
from crosshair.tracers import NoTracing as _NoTracing
from crosshair.util import CrossHairValue as _CHV

PATCHES = [
    "SequenceConcatenation.__eq__: element-wise comparison (0.0.110 compares list vs tuple pieces)",
    "SymbolicBoundedIntTuple._create_up_to: early return when already long enough",
    "ContainmentInterceptor: `x in frozenset` handled like set (linear ==, no hashing)",
    "premature realisation of arguments disabled (fork_parallel 'premature realize' -> symbolic branch)",
    "operator.contains(dict|set|frozenset, symbolic) -> linear == scan",
    "make_counterexample_message: realised argument values also recorded structurally",
]


# 1 ---------------------------------------------------------------------------------------------
def _pieces_eq(x, y):
    # never delegate to list.__eq__/tuple.__eq__ across container types ([] == () is False)
    if isinstance(x, _ss.SeqBase):
        return _ss.SeqBase.__eq__(x, y)
    if isinstance(y, _ss.SeqBase):
        return _ss.SeqBase.__eq__(y, x)
    return len(x) == len(y) and all(a == b for a, b in zip(x, y))


def _seqconcat_eq(self, other):
    with _NoTracing():
        if not hasattr(other, "__len__"):
            return False
        first, second = self._first, self._second
    if self.__len__() != other.__len__():
        return False
    firstlen = first.__len__()
    return _pieces_eq(first, other[:firstlen]) and _pieces_eq(second, other[firstlen:])


_ss.SequenceConcatenation.__eq__ = _seqconcat_eq

# 2 ---------------------------------------------------------------------------------------------
_orig_create_up_to = _bl.SymbolicBoundedIntTuple._create_up_to


def _create_up_to(self, size):
    if size <= len(self._created_vars):
        return
    return _orig_create_up_to(self, size)


_bl.SymbolicBoundedIntTuple._create_up_to = _create_up_to

# 3 ---------------------------------------------------------------------------------------------
_orig_trace_op = _oi.ContainmentInterceptor.trace_op


def _trace_op(self, frame, codeobj, codenum):
    item = _oi.frame_stack_read(frame, -2)
    if isinstance(item, _oi.CrossHairValue):
        container = _oi.frame_stack_read(frame, -1)
        if type(container) is frozenset:
            _oi.frame_stack_write(
                frame, -1, _oi.ShellMutableSet(_oi.LinearSet(container))
            )
            return
    return _orig_trace_op(self, frame, codeobj, codenum)


_oi.ContainmentInterceptor.trace_op = _trace_op

# 4 ---------------------------------------------------------------------------------------------
_orig_fork_parallel = _sp.StateSpace.fork_parallel


def _fork_parallel(self, false_probability, desc=""):
    if desc.startswith("premature realize"):
        return False
    return _orig_fork_parallel(self, false_probability, desc)


_sp.StateSpace.fork_parallel = _fork_parallel

# 5 ---------------------------------------------------------------------------------------------
_orig_contains = _op.contains


def _has_symbolic(x):
    if isinstance(x, _CHV):
        return True
    if type(x) is tuple:
        return any(_has_symbolic(e) for e in x)
    return False


def _contains(container, item):
    with _NoTracing():
        go = _has_symbolic(item) and type(container) in (dict, set, frozenset)
    if go:
        for k in container:
            if k == item:
                return True
        return False
    return _orig_contains(container, item)


_register_patch(_op.contains, _contains)

# 6 ---------------------------------------------------------------------------------------------
#: realised argument dictionaries of every counterexample the engine formats, newest last
COUNTEREXAMPLES = []
_orig_make_msg = _core.make_counterexample_message


def _make_counterexample_message(conditions, args, return_val=None):
    reprer = _core.context_statespace().extra(_core.LazyCreationRepr)
    with _NoTracing():
        realised = reprer.deep_realize(args)
        try:
            COUNTEREXAMPLES.append(dict(realised.arguments))
        except Exception:  # pragma: no cover - never let bookkeeping break the engine
            pass
    return _orig_make_msg(conditions, args, return_val)


_core.make_counterexample_message = _make_counterexample_message

# 7 (bookkeeping only) ---------------------------------------------------------------------------
#: every satisfiability query the engine sends to z3 goes through statespace.solver_is_sat
SOLVER = {"queries": 0, "sat": 0, "unsat": 0, "unknown": 0, "time_s": 0.0}
_orig_solver_is_sat = _sp.solver_is_sat


def _solver_is_sat(solver, *exprs):
    import time as _t

    t0 = _t.perf_counter()
    SOLVER["queries"] += 1
    try:
        r = _orig_solver_is_sat(solver, *exprs)
    except BaseException:
        SOLVER["unknown"] += 1
        SOLVER["time_s"] += _t.perf_counter() - t0
        raise
    SOLVER["sat" if r else "unsat"] += 1
    SOLVER["time_s"] += _t.perf_counter() - t0
    return r


_sp.solver_is_sat = _solver_is_sat

# 8 ---------------------------------------------------------------------------------------------
# Short-circuiting: CrossHair may skip the body of any callee that carries a contract and return an arbitrary
# symbolic value of its return type instead.  Its own model of repr() carries `post[]: True`, so repr() of a
# concrete string was being replaced by an unconstrained symbolic string (seen in deduplicate_sorted_imports).
# That is an over-approximation we do not want: every callee body is executed.
PATCHES.append("short-circuiting of contract-carrying callees disabled (consider_shortcircuit -> None): every callee body runs")


def _never_shortcircuit(fn, sig, bound, subconditions, allow_interpretation):
    if not allow_interpretation:  # explicitly registered skip_body / specs_complete callees keep their behaviour
        return _orig_consider_shortcircuit(fn, sig, bound, subconditions, allow_interpretation)
    return None


_orig_consider_shortcircuit = _core.consider_shortcircuit
_core.consider_shortcircuit = _never_shortcircuit

# 9 ---------------------------------------------------------------------------------------------
# CrossHair skips functools.lru_cache altogether (every call runs the wrapped function).  That hides exactly the kind
# of state the call-history half of C10 is about (a cached mutable result shared between calls), so the cache is
# modelled instead: unbounded, looked up by == in insertion order (no hashing, so symbolic arguments stay symbolic),
# returning the SAME object on a hit.  The model is reset at the start of every execution of an obligation body.
PATCHES.append("functools.lru_cache modelled as an unbounded cache with linear == lookup (CrossHair skips caches), reset per execution")
from functools import _lru_cache_wrapper as _lcw  # noqa: E402

_CACHES = {}


def reset_caches():
    _CACHES.clear()


def _call_with_linear_cache(self, *a, **kw):
    if not isinstance(self, _lcw):
        raise TypeError
    entries = _CACHES.setdefault(id(self), [])
    for a0, kw0, res in entries:
        if len(a0) == len(a) and len(kw0) == len(kw):
            same = True
            for x, y in zip(a0, a):
                if not (x is y or x == y):
                    same = False
                    break
            if same and kw0 == kw:
                return res
    res = self.__wrapped__(*a, **kw)
    entries.append((a, dict(kw), res))
    return res


_core._PATCH_REGISTRATIONS[_lcw.__call__] = _call_with_linear_cache  # replaces CrossHair's own "skip the cache" patch
