"""Run ONE obligation under CrossHair in this process and print `RESULT <json>`.

usage: python -m chx.run_one <harness module> <prop> <oid> [--T s] [--tpath s] [--exclude EXPR]...

Verdicts (DESIGN.md 4.2):
  confirmed   main condition "Confirmed over all paths" and the reachability twin was refuted
  vacuous     main confirmed but no input reaches the success path (twin confirmed / unmet pre)
  violation   counterexample found AND reproduced by chx.replay on the real code without CrossHair
  diverged    counterexample(s) found but none reproduced concretely (engine/encoding divergence)
  unknown     path tree not exhausted inside the budget (or a path timed out) - inconclusive
  error       harness problem (syntax/import error in the generated contract, ...)
"""
import argparse
import json
import os
import shutil
import subprocess
import sys
import tempfile
import time
from collections import Counter

HERE = os.path.dirname(os.path.dirname(os.path.abspath(__file__)))


def _gen_source(o, excludes, post):
    pres = [o.arg_pre(), o.pre] + ["not (%s)" % e for e in excludes]
    lines = [
        "from %s import *" % o.module,
        "from chx.ob import REGISTRY as _R, U",
        "from chx.chfix import reset_caches as _reset_caches",
        "_f = _R[(%r, %r)].fn" % (o.prop, o.oid),
        "def cond(%s) -> str:" % o.signature(),
        '    """',
    ]
    lines += ["    pre: %s" % p for p in pres if p and p != "True"]
    lines += ["    post: %s" % post, '    """']
    lines += ["    _reset_caches()", "    return _f(%s)" % ", ".join(o.args)]
    return "\n".join(lines) + "\n"


def _analyze(o, excludes, post, T, tpath, workdir, tag):
    """returns (status, messages, cex_args, stats)"""
    import importlib

    from crosshair.condition_parser import condition_parser
    from crosshair.core import analyze_calltree, analyze_function
    from crosshair.options import AnalysisOptionSet
    from crosshair.statespace import MessageType, VerificationStatus

    from chx import chfix

    name = "chxgen_%s" % tag
    path = os.path.join(workdir, name + ".py")
    with open(path, "w") as f:
        f.write(_gen_source(o, excludes, post))
    importlib.invalidate_caches()
    mod = importlib.import_module(name)
    optset = AnalysisOptionSet(
        per_condition_timeout=float(T),
        per_path_timeout=float(tpath),
        report_all=True,
        max_uninteresting_iterations=sys.maxsize,
    )
    checkables = analyze_function(mod.cond, optset)
    if len(checkables) != 1 or not hasattr(checkables[0], "conditions"):
        msgs = []
        for c in checkables:
            msgs += [m.message for m in c.analyze()]
        return "error", msgs or ["no condition parsed"], None, {}
    c = checkables[0]
    options = c.options
    options.stats = Counter()
    del chfix.COUNTEREXAMPLES[:]
    q0 = dict(chfix.SOLVER)
    t0 = time.process_time()
    options.deadline = t0 + options.per_condition_timeout
    with condition_parser(options.analysis_kind):
        analysis = analyze_calltree(options, c.conditions)
    cpu = time.process_time() - t0
    stats = {
        "paths": int(options.stats.get("num_paths", 0)),
        "confirmed_paths": int(analysis.num_confirmed_paths),
        "cpu_s": round(cpu, 2),
        "smt_queries": chfix.SOLVER["queries"] - q0["queries"],
        "smt_unsat": chfix.SOLVER["unsat"] - q0["unsat"],
        "smt_unknown": chfix.SOLVER["unknown"] - q0["unknown"],
        "smt_time_s": round(chfix.SOLVER["time_s"] - q0["time_s"], 2),
    }
    msgs = ["%s: %s" % (m.state.name, m.message) for m in analysis.messages]
    st = analysis.verification_status
    if st is VerificationStatus.CONFIRMED:
        return "confirmed", msgs, None, stats
    if st is VerificationStatus.UNKNOWN:
        return "unknown", msgs, None, stats
    states = {m.state for m in analysis.messages}
    if MessageType.PRE_UNSAT in states and not (
        states & {MessageType.POST_FAIL, MessageType.EXEC_ERR, MessageType.POST_ERR}
    ):
        return "pre_unsat", msgs, None, stats
    if states & {MessageType.SYNTAX_ERR, MessageType.IMPORT_ERR}:
        return "error", msgs, None, stats
    cex = chfix.COUNTEREXAMPLES[-1] if chfix.COUNTEREXAMPLES else None
    if cex is not None:
        cex = {k: (bool(v) if isinstance(v, bool) else (str(v) if isinstance(v, str) else int(v))) for k, v in cex.items()}
    return "refuted", msgs, cex, stats


def replay(o, args, timeout=120, no_known=False):
    """re-execute the obligation concretely in a fresh interpreter without CrossHair tracing"""
    cmd = [sys.executable, "-m", "chx.replay", o.module, o.prop, o.oid, json.dumps(args)]
    env = dict(os.environ, PYTHONPATH=os.environ.get("PYTHONPATH") or HERE)
    if no_known:
        env["CHX_NO_KNOWN"] = "1"
    try:
        p = subprocess.run(
            cmd, cwd=HERE, capture_output=True, text=True, timeout=timeout, env=env,
        )
    except subprocess.TimeoutExpired:
        return {"diag": "HANG: no result within %d s wall clock" % timeout, "hang": True}
    for line in p.stdout.splitlines()[::-1]:
        if line.startswith("REPLAY "):
            return json.loads(line[7:])
    return {"diag": "", "error": "replay produced no result: " + (p.stderr or "")[-2000:]}


def run(module, prop, oid, T=None, tpath=None, excludes=()):
    import importlib

    from chx import chfix  # noqa: F401  (patches first)
    import cdd.class_.parse  # noqa: F401  import-order precondition, DESIGN.md 4.8

    from chx.ob import REGISTRY

    importlib.import_module(module)
    o = REGISTRY[(prop, oid)]
    T = float(T or o.T)
    tpath = float(tpath or o.tpath or max(10.0, T / 5))
    if o.engine == "direct":
        w0 = time.time()
        r = o.fn()
        out = {"prop": prop, "oid": oid, "T": T, "excludes": [], "domain_size": None, "twin": r.get("twin", "reached"),
               "witness": r.get("witness"), "diverged": [],
               "stats": {"paths": r.get("queries", 0), "confirmed_paths": r.get("unsat", 0), "cpu_s": round(time.time() - w0, 2),
                         "smt_queries": r.get("queries", 0), "smt_unsat": r.get("unsat", 0), "smt_unknown": r.get("unknown", 0),
                         "smt_time_s": round(r.get("solver_s", 0.0), 2)},
               "messages": r.get("messages", []), "verdict": r["verdict"], "wall_s": round(time.time() - w0, 2)}
        if r["verdict"] == "violation":
            out["cex"] = {"args": r.get("cex", {}), "engine": r.get("messages", [])[:2], "replay": {"diag": r.get("diag", "violation")}}
        return out
    excludes = list(excludes)
    workdir = tempfile.mkdtemp(prefix="chx_")
    sys.path.insert(0, workdir)
    out = {
        "prop": prop, "oid": oid, "T": T, "tpath": tpath, "excludes": excludes,
        "domain_size": o.domain_size(),
    }
    w0 = time.time()
    try:
        # --- reachability twin ---------------------------------------------------------------
        witness = None
        twin_status = "skipped"
        if o.twin:
            st, msgs, cex, stats = _analyze(
                o, excludes, '_ != ""', min(T, 90.0), min(tpath, 45.0), workdir, "twin"
            )
            out["twin_stats"] = stats
            if st == "refuted" and cex is not None:
                r = replay(o, cex)
                if r.get("diag") == "" and not r.get("error"):
                    witness, twin_status = cex, "reached"
                else:
                    twin_status = "witness-not-reproduced"
                    out["twin_replay"] = r
            elif st in ("confirmed", "pre_unsat"):
                twin_status = "unreachable"
            else:
                twin_status = "inconclusive:" + st
            out["twin_messages"] = msgs[:3]
        out["twin"] = twin_status
        out["witness"] = witness
        # --- the obligation itself -------------------------------------------------------------
        diverged = []
        verdict = "unknown"
        for attempt in range(4):
            st, msgs, cex, stats = _analyze(
                o, excludes, '_ == ""', T, tpath, workdir, "main%d" % attempt
            )
            out["stats"] = stats
            out["messages"] = msgs[:5]
            if st == "confirmed":
                if twin_status == "reached" or not o.twin:
                    verdict = "confirmed"
                elif twin_status == "unreachable":
                    verdict = "vacuous"
                else:
                    verdict = "confirmed-twin-inconclusive"
                break
            if st == "pre_unsat":
                verdict = "vacuous"
                break
            if st in ("unknown", "error"):
                verdict = st
                break
            # refuted with a counterexample
            if cex is None:
                verdict = "error"
                out["messages"].append("counterexample without captured arguments")
                break
            r = replay(o, cex)
            if r.get("diag"):
                verdict = "violation"
                out["cex"] = {"args": cex, "engine": msgs[:2], "replay": r}
                break
            diverged.append({"args": cex, "engine": msgs[:2], "replay": r})
            excludes.append(" and ".join("%s == %r" % kv for kv in cex.items()))
            verdict = "diverged"
        out["diverged"] = diverged
        out["verdict"] = verdict
    finally:
        shutil.rmtree(workdir, ignore_errors=True)
    out["wall_s"] = round(time.time() - w0, 2)
    return out


def main(argv=None):
    ap = argparse.ArgumentParser()
    ap.add_argument("module")
    ap.add_argument("prop")
    ap.add_argument("oid")
    ap.add_argument("--T", type=float)
    ap.add_argument("--tpath", type=float)
    ap.add_argument("--exclude", action="append", default=[])
    ap.add_argument("--debug", action="store_true", help="CrossHair debug log on stderr (grep 'SMT realized')")
    a = ap.parse_args(argv)
    if a.debug:
        from crosshair.util import set_debug

        set_debug(True)
    try:
        out = run(a.module, a.prop, a.oid, a.T, a.tpath, a.exclude)
    except BaseException as e:  # harness error, never a verdict
        import traceback

        out = {"prop": a.prop, "oid": a.oid, "verdict": "error",
               "messages": [repr(e), traceback.format_exc()[-3000:]]}
    print("RESULT " + json.dumps(out, default=repr))


if __name__ == "__main__":
    main()
