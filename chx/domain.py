"""Shared oracles: IR well-formedness (C14) and IR comparison modulo the listed normalisations (C01-C08)."""
import ast

ALLOWED_PARAM_KEYS = ("typ", "doc", "default", "x_typ")
ALLOWED_IR_KEYS = ("name", "type", "_internal", "doc", "params", "returns")


def _some_line_ends_with_colon(text):
    for line in text.splitlines():  # str.splitlines also breaks at \x0b \x0c \x1c-\x1e \x85 \u2028 \u2029
        if line.rstrip().endswith(":"):
            return True
    return False


REST_FIELDS = (":param", ":type", ":cvar", ":ivar", ":var", ":raises", ":return", ":rtype")


def _empty_name_token(text):
    """some field line of the docstring has an empty (or asterisks-only) name token"""
    for line in text.splitlines():
        t = line.strip()
        rest_field = False
        for f in REST_FIELDS:
            if t.startswith(f):
                rest_field = True
        if rest_field:
            if " :" in t or "*:" in t or t.startswith(":param:") or t.startswith(":type:"):
                return True
        elif t.startswith(":") or t.startswith("(") or (len(t) > 0 and t.strip("*") == "") or t.startswith("* ") or t.startswith("*:"):
            return True
    return False


def _entry_wf(where, entry, check_typ_parses=True, source_text=None):
    if not isinstance(entry, dict):
        return "%s: entry is not a mapping" % where
    for k in entry:
        ok = False
        for a in ALLOWED_PARAM_KEYS:
            if k == a:
                ok = True
        if not ok:
            from chx.ob import known_active

            if k == "server_default" and known_active("F35"):
                continue  # known finding F35: the SQLAlchemy column parser leaves the server_default keyword in the entry (pinned by a test)
            return "%s: unexpected key %r" % (where, k)
    if "typ" in entry and entry["typ"] is not None:  # `typ: None` is read as "no type known" (an unannotated, undocumented parameter)
        t = entry["typ"]
        if not isinstance(t, str):
            return "%s: typ is not a str (%s)" % (where, type(t).__name__)
        if check_typ_parses:
            from chx.ob import known_active

            verbatim = (source_text is not None and known_active("F17") and len(t) > 0 and "\n\n" not in t
                        and t.strip() in source_text.replace("```", ""))
            if (not verbatim and source_text is not None and known_active("F17") and t.strip() == ""
                    and _some_line_ends_with_colon(source_text)):
                verbatim = True  # F17, empty variant: a field whose type text is empty ('a :' + newline) yields typ ''

            # known finding F17: type text copied verbatim from one line of the docstring is never validated
            if not verbatim:
                try:
                    ast.parse(t.strip(), mode="eval")  # realises `t`: last step of the path
                except (SyntaxError, ValueError):
                    return "%s: typ %r does not parse as a Python expression" % (where, t)
    if "doc" in entry and entry["doc"] is not None and not isinstance(entry["doc"], str):
        return "%s: doc is not a str" % where
    return ""


def wf(ir, check_typ_parses=True, source_text=None):
    """the documented shape of an interface description; "" when well formed"""
    if not isinstance(ir, dict):
        return "IR is not a mapping"
    for k in ("name", "doc", "params"):  # an absent 'returns' key is read as "no return entry"
        if k not in ir:
            return "IR lacks key %r" % k
    for k in ir:
        ok = False
        for a in ALLOWED_IR_KEYS:
            if k == a:
                ok = True
        if not ok:
            return "IR has unexpected key %r" % (k,)
    if ir["name"] is not None and not isinstance(ir["name"], str):
        return "name is neither None nor a str"
    if not isinstance(ir["doc"], str):
        return "doc is not a str (%s)" % type(ir["doc"]).__name__
    params = ir["params"]
    if not hasattr(params, "items") or not hasattr(params, "keys"):
        return "params is not a mapping"
    seen = []
    for name, entry in params.items():
        if not isinstance(name, str):
            return "parameter name is not a str"
        if len(name) == 0:
            from chx.ob import known_active

            if source_text is not None and known_active("F18") and _empty_name_token(source_text):
                continue  # known finding F18: a ReST field with an empty name token yields a parameter called ""
            return "parameter name is empty"
        if name.startswith("*"):
            return "parameter name has a leading asterisk"
        for s in seen:
            if s == name:
                return "parameter appears twice"
        seen.append(name)
        d = _entry_wf("param", entry, check_typ_parses, source_text)
        if d:
            return d
    r = ir.get("returns")
    if r is not None:
        if not hasattr(r, "items"):
            return "returns is neither None nor a mapping"
        keys = list(r.keys())
        if len(keys) != 1 or keys[0] != "return_type":
            return "returns does not have exactly one entry called return_type"
        d = _entry_wf("return", r["return_type"], check_typ_parses, source_text)
        if d:
            return d
    return ""


# ------------------------------------------------------------------------------------- IR comparison (C01-C08)
def norm_doc(s):
    """descriptions are compared up to surrounding whitespace and one terminal full stop"""
    if s is None:
        return ""
    s = s.strip()
    if s.endswith("."):
        s = s[:-1].rstrip()
    return s


NONE_STRS = ("None", "```(None)```", "```None```")


def same_default(a, b):
    """same value AND same Python type; None == NoneStr; a str is compared modulo one layer of quotes (pure_utils.quote/unquote)"""
    a_none = a is None or (isinstance(a, str) and (a == NONE_STRS[0] or a == NONE_STRS[1] or a == NONE_STRS[2]))
    b_none = b is None or (isinstance(b, str) and (b == NONE_STRS[0] or b == NONE_STRS[1] or b == NONE_STRS[2]))
    if a_none or b_none:
        return a_none and b_none
    if isinstance(a, bool) or isinstance(b, bool):
        return isinstance(a, bool) and isinstance(b, bool) and a == b
    if isinstance(a, str) and isinstance(b, str):
        return a == b or _unq(a) == _unq(b)
    if type(a) is not type(b) and not (isinstance(a, int) and isinstance(b, int)) and not (isinstance(a, float) and isinstance(b, float)):
        return False
    return a == b


def _unq(s):
    if len(s) > 1 and ((s.startswith('"') and s.endswith('"')) or (s.startswith("'") and s.endswith("'"))):
        return s[1:-1]
    return s


def entry_equiv(where, a, b, types=True, defaults=True, docs=True, typ_may_be_inferred=False, none_is_absent=False):
    """a = original entry, b = entry after the round trip; "" when equivalent"""
    if docs and norm_doc(a.get("doc")) != norm_doc(b.get("doc")):
        return "%s: description changed: %r -> %r" % (where, a.get("doc"), b.get("doc"))
    if types:
        if a.get("typ") != b.get("typ"):
            inferred = a.get("typ") is None and "default" in a and b.get("typ") == type(a["default"]).__name__
            if not inferred:  # an absent type may be inferred from the default (listed normalisation)
                return "%s: type changed: %r -> %r" % (where, a.get("typ"), b.get("typ"))
    elif b.get("typ") is not None and b.get("typ") != a.get("typ") and not typ_may_be_inferred:
        return "%s: a type appeared that is not the original: %r (original %r)" % (where, b.get("typ"), a.get("typ"))
    if defaults:
        if ("default" in a) != ("default" in b):
            if none_is_absent and same_default(a.get("default"), b.get("default")):
                return ""  # None/absent default convention (NoneStr / none_types)
            return "%s: default %s" % (where, "lost" if "default" in a else "invented: %r" % (b.get("default"),))
        if "default" in a and not same_default(a["default"], b["default"]):
            return "%s: default changed: %r (%s) -> %r (%s)" % (where, a["default"], type(a["default"]).__name__, b["default"], type(b["default"]).__name__)
    return ""


def ir_equiv(a, b, types=True, defaults=True, docs=True, header=True, typ_may_be_inferred=False, returns=True, none_is_absent=False):
    ka, kb = list(a["params"].keys()), list(b["params"].keys())
    if len(ka) != len(kb):
        return "number of parameters changed: %r -> %r" % (ka, kb)
    for x, y in zip(ka, kb):
        if x != y:
            return "parameter names/order changed: %r -> %r" % (ka, kb)
    for k in ka:
        d = entry_equiv("param %s" % k, a["params"][k], b["params"][k], types, defaults, docs, typ_may_be_inferred, none_is_absent)
        if d:
            return d
    if returns:
        ra, rb = a.get("returns"), b.get("returns")
        ha = bool(ra) and "return_type" in ra
        hb = bool(rb) and "return_type" in rb
        if ha != hb:
            return "return entry %s" % ("lost" if ha else "invented: %r" % (dict(rb),))
        if ha:
            d = entry_equiv("return", ra["return_type"], rb["return_type"], types, defaults, docs, typ_may_be_inferred)
            if d:
                return d
    if header and norm_doc(a.get("doc")) != norm_doc(b.get("doc")):
        return "prose description changed: %r -> %r" % (a.get("doc"), b.get("doc"))
    return ""
