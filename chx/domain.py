"""Shared oracles: IR well-formedness (C14) and IR comparison modulo the listed normalisations (C01-C08)."""
import ast

ALLOWED_PARAM_KEYS = ("typ", "doc", "default", "x_typ")
ALLOWED_IR_KEYS = ("name", "type", "_internal", "doc", "params", "returns")


def _some_line_ends_with_colon(text):
    for line in text.splitlines():  # str.splitlines also breaks at \x0b \x0c \x1c-\x1e \x85 \u2028 \u2029
        if line.rstrip().endswith(":"):
            return True
    return False


def _entry_wf(where, entry, check_typ_parses=True, source_text=None):
    if not isinstance(entry, dict):
        return "%s: entry is not a mapping" % where
    for k in entry:
        ok = False
        for a in ALLOWED_PARAM_KEYS:
            if k == a:
                ok = True
        if not ok:
            return "%s: unexpected key %r" % (where, k)
    if "typ" in entry:
        t = entry["typ"]
        if not isinstance(t, str):
            return "%s: typ is not a str (%s)" % (where, type(t).__name__)
        if check_typ_parses:
            from chx.ob import known_active

            verbatim = (source_text is not None and known_active("F17") and len(t) > 0 and "\n\n" not in t
                        and t.strip() in source_text.replace("```", ""))
            if (not verbatim and source_text is not None and known_active("F17") and t.strip() == ""
                    and _some_line_ends_with_colon(source_text)):
                verbatim = True  # F17, empty variant: a field whose type text is empty ('a :' + newline) yields typ ''

            # known finding F17: type text copied verbatim from one line of the docstring is never validated
            if not verbatim:
                try:
                    ast.parse(t.strip(), mode="eval")  # realises `t`: last step of the path
                except (SyntaxError, ValueError):
                    return "%s: typ %r does not parse as a Python expression" % (where, t)
    if "doc" in entry and entry["doc"] is not None and not isinstance(entry["doc"], str):
        return "%s: doc is not a str" % where
    return ""


def wf(ir, check_typ_parses=True, source_text=None):
    """the documented shape of an interface description; "" when well formed"""
    if not isinstance(ir, dict):
        return "IR is not a mapping"
    for k in ("name", "doc", "params", "returns"):
        if k not in ir:
            return "IR lacks key %r" % k
    for k in ir:
        ok = False
        for a in ALLOWED_IR_KEYS:
            if k == a:
                ok = True
        if not ok:
            return "IR has unexpected key %r" % (k,)
    if ir["name"] is not None and not isinstance(ir["name"], str):
        return "name is neither None nor a str"
    if not isinstance(ir["doc"], str):
        return "doc is not a str (%s)" % type(ir["doc"]).__name__
    params = ir["params"]
    if not hasattr(params, "items") or not hasattr(params, "keys"):
        return "params is not a mapping"
    seen = []
    for name, entry in params.items():
        if not isinstance(name, str):
            return "parameter name is not a str"
        if len(name) == 0:
            from chx.ob import known_active

            if source_text is not None and known_active("F18") and (" :" in source_text or ":param:" in source_text or "*:" in source_text):
                continue  # known finding F18: a ReST field with an empty name token yields a parameter called ""
            return "parameter name is empty"
        if name.startswith("*"):
            return "parameter name has a leading asterisk"
        for s in seen:
            if s == name:
                return "parameter appears twice"
        seen.append(name)
        d = _entry_wf("param", entry, check_typ_parses, source_text)
        if d:
            return d
    r = ir["returns"]
    if r is not None:
        if not hasattr(r, "items"):
            return "returns is neither None nor a mapping"
        keys = list(r.keys())
        if len(keys) != 1 or keys[0] != "return_type":
            return "returns does not have exactly one entry called return_type"
        d = _entry_wf("return", r["return_type"], check_typ_parses, source_text)
        if d:
            return d
    return ""
