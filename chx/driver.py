"""./check <PROP> [--tier quick|thorough] [--only GLOB] [--jobs N] [--replay FILE]

Shards the obligations of one property over the cores (one OS process per obligation, each under
`timeout`), collects verdicts, replays known-finding witnesses, writes /verif/evidence/<PROP>.json and
prints `VIOLATION property=<id> replay=<path>` (exit 1) only for counterexamples that were reproduced
on the real code by a plain interpreter (chx/replay.py).  Inconclusive obligations never fail a check.
"""
import argparse
import fnmatch
import importlib
import json
import os
import random
import subprocess
import sys
import time
from concurrent.futures import ThreadPoolExecutor

HERE = os.path.dirname(os.path.dirname(os.path.abspath(__file__)))
PY = sys.executable
REPLAY_DIR = os.path.join(HERE, "replay_out")
EVID_DIR = os.path.join(HERE, "evidence")

MODULES = {  # property -> harness modules
    "C01": ["harness.c01"], "C02": ["harness.c02"], "C03": ["harness.c03"], "C05": ["harness.c05"],
    "C06": ["harness.c06"], "C07": ["harness.c07"], "C08": ["harness.c08"], "C09": ["harness.c09"],
    "C10": ["harness.c10"], "C11": ["harness.c11"], "C12": ["harness.c12"], "C13": ["harness.c13"],
    "C14": ["harness.c14"], "C15": ["harness.c15"], "C16": ["harness.c16"], "C17": ["harness.c17"],
    "C19": ["harness.c19"], "C20": ["harness.c20"], "SELFTEST": ["harness.selftest"],
}


def load_known():
    with open(os.path.join(HERE, "known_findings.json")) as f:
        return json.load(f)


def _run_one(o, excludes, T=None):
    cmd = [PY, "-m", "chx.run_one", o.module, o.prop, o.oid]
    if T:
        cmd += ["--T", str(T)]
    for e in excludes:
        cmd += ["--exclude", e]
    # CPU budget: twin (<=90) + up to 4 attempts are rare; wall cap = generous multiple
    cap = int((T or o.T) * 2 + 240)
    t0 = time.time()
    try:
        p = subprocess.run(
            ["timeout", "-k", "10", str(cap)] + cmd, cwd=HERE, capture_output=True, text=True,
            env=dict(os.environ, PYTHONPATH=os.environ.get("PYTHONPATH") or HERE, PYTHONHASHSEED="0"),
        )
        for line in p.stdout.splitlines()[::-1]:
            if line.startswith("RESULT "):
                r = json.loads(line[7:])
                break
        else:
            r = {"verdict": "unknown" if p.returncode in (124, 137) else "error",
                 "messages": ["no RESULT line; rc=%s" % p.returncode, (p.stderr or "")[-1500:]]}
    except Exception as e:  # pragma: no cover
        r = {"verdict": "error", "messages": [repr(e)]}
    r.setdefault("prop", o.prop)
    r.setdefault("oid", o.oid)
    r["proc_wall_s"] = round(time.time() - t0, 2)
    return r


def _replay(o, args, timeout=180, no_known=False):
    from chx.run_one import replay

    return replay(o, args, timeout, no_known)


def check_covers(mods):
    """z3: the shards of a partitioned obligation cover its precondition (pre and not any shard: unsat)"""
    import z3

    out = []
    for m in mods:
        for name, (var, (lo, hi), shards) in getattr(m, "COVERS", {}).items():
            x = z3.Int(var)
            s = z3.Solver()
            s.add(lo <= x, x <= hi)
            s.add(z3.Not(z3.Or([z3.And(a <= x, x <= b) for rs in shards.values() for (a, b) in rs])))
            r = str(s.check())
            # shards must also be pairwise disjoint (not needed for soundness; keeps counts honest)
            out.append({"partition": name, "variable": var, "shards": len(shards), "z3_cover_query": r})
    return out


def main(argv=None):
    ap = argparse.ArgumentParser()
    ap.add_argument("prop")
    ap.add_argument("--tier", default=os.environ.get("VERIF_TIER", "quick"), choices=["quick", "thorough"])
    ap.add_argument("--only", default=None, help="glob over obligation ids")
    ap.add_argument("--jobs", type=int, default=int(os.environ.get("VERIF_JOBS", "16")))
    ap.add_argument("--replay", default=None)
    ap.add_argument("--scale", type=float, default=float(os.environ.get("VERIF_TSCALE", "1")))
    ap.add_argument("--no-evidence", action="store_true")
    a = ap.parse_args(argv)
    prop = a.prop.upper()
    seed = int(os.environ.get("VERIF_SEED", "0") or 0)
    os.environ["VERIF_SEED"] = str(seed)
    os.environ["VERIF_TIER"] = a.tier
    sys.path.insert(0, HERE)

    import cdd.class_.parse  # noqa: F401  import-order precondition (DESIGN.md 4.8)

    from chx.ob import REGISTRY, obligations

    mods = [importlib.import_module(m) for m in MODULES[prop]]

    if a.replay:
        with open(a.replay) as f:
            rec = json.load(f)
        o = REGISTRY[(rec["property"], rec["obligation"])]
        r = _replay(o, rec["args"])
        print(json.dumps(r, indent=1))
        if r.get("diag"):
            print("VIOLATION property=%s replay=%s" % (prop, os.path.abspath(a.replay)))
            return 1
        print("not reproduced")
        return 0

    t0 = time.time()
    known = load_known()
    obs = obligations(prop, a.tier)
    if a.only:
        obs = [o for o in obs if fnmatch.fnmatch(o.oid, a.only)]
    rnd = random.Random(seed)
    rnd.shuffle(obs)
    obs.sort(key=lambda o: -o.T)  # longest first (stable: ties keep the seeded order)

    findings = [k for k in known.get("findings", []) if k["property"] == prop]

    def excludes_for(o):
        return [k["region"] for k in findings if k.get("region") and fnmatch.fnmatch(o.oid, k.get("obligation", ""))]

    with ThreadPoolExecutor(max_workers=a.jobs) as ex:
        futs = [(o, ex.submit(_run_one, o, excludes_for(o), o.T * a.scale if a.scale != 1 else None)) for o in obs]
        results = [(o, f.result()) for o, f in futs]

    # known findings: replay each witness on the real code; still failing -> KNOWN-FINDING line
    known_lines, known_records = [], []
    ids_run = {o.oid for o in obs}
    for k in findings:
        targets = [o for o in obligations(prop, "witness") if fnmatch.fnmatch(o.oid, k["witness_obligation"])]
        if not targets or (a.only and targets[0].oid not in ids_run):
            continue
        r = _replay(targets[0], k["witness"], no_known=True)
        still = bool(r.get("diag"))
        known_records.append({"id": k["id"], "witness": k["witness"], "still_fails": still, "diag": r.get("diag", "")[:300]})
        if still:
            known_lines.append("KNOWN-FINDING: property=%s %s: %s" % (prop, k["id"], k["what"]))

    os.makedirs(REPLAY_DIR, exist_ok=True)
    violations = []
    per_ob = []
    counts = {}
    for o, r in sorted(results, key=lambda x: x[0].oid):
        v = r.get("verdict", "error")
        counts[v] = counts.get(v, 0) + 1
        st = r.get("stats", {})
        rec = {
            "obligation": o.oid, "verdict": v, "functions": o.funcs, "bound": o.bound,
            "domain_size": r.get("domain_size"), "pre": o.pre, "excluded_known_regions": r.get("excludes", []),
            "paths": st.get("paths", 0), "confirmed_paths": st.get("confirmed_paths", 0),
            "smt_queries": st.get("smt_queries", 0) + r.get("twin_stats", {}).get("smt_queries", 0),
            "smt_time_s": round(st.get("smt_time_s", 0) + r.get("twin_stats", {}).get("smt_time_s", 0), 2),
            "cpu_s": st.get("cpu_s", 0), "wall_s": r.get("proc_wall_s"), "budget_s": r.get("T", o.T),
            "twin": r.get("twin"), "witness": r.get("witness"), "assumes": o.assumes,
        }
        if v not in ("confirmed",):
            rec["messages"] = r.get("messages", [])[:4]
        if r.get("diverged"):
            rec["diverged"] = r["diverged"]
        if v == "violation":
            path = os.path.join(REPLAY_DIR, "%s-%s.json" % (prop, o.oid))
            with open(path, "w") as f:
                json.dump({"property": prop, "obligation": o.oid, "args": r["cex"]["args"],
                           "observed": r["cex"]["replay"], "engine": r["cex"]["engine"],
                           "functions": o.funcs, "bound": o.bound}, f, indent=1)
            rec["cex"] = r["cex"]
            violations.append((o, path, r))
        per_ob.append(rec)

    covers = check_covers(mods)
    discharged = sum(1 for r in per_ob if r["verdict"] == "confirmed")
    nontrivial = sum(1 for r in per_ob if r["verdict"] == "confirmed" and r["paths"] >= 2 and r["twin"] == "reached")
    from chx import chfix

    assumptions = sorted({x for o in obs for x in o.assumes} | set(getattr(mods[0], "ASSUMPTIONS", [])))
    assumptions += [
        "harness and replay import cdd.class_.parse first (7 modules are not importable first; see C18 in DESIGN.md)",
        "CrossHair 0.0.110 patched by chx/chfix.py: " + "; ".join(chfix.PATCHES),
        "verdict 'confirmed' = CrossHair exhausted the path tree of the contract (every path CONFIRMED, no path timed out); bounded by the stated argument ranges",
    ]
    evidence = {
        "property_id": prop, "tier": a.tier, "seed": seed, "level": "other",
        "coverage": {
            "explanation": "Bounded symbolic execution (CrossHair 0.0.110 + z3) of the real /repo functions, "
                           "imported from the current working tree at run time. Each obligation is a contract whose int/bool "
                           "arguments are solver variables (strings are built from symbolic code points); 'confirmed' means the "
                           "path tree was exhausted within the stated bound, 'unknown' is inconclusive and is not counted as discharged. "
                           + getattr(mods[0], "EXPLANATION", ""),
            "obligations": len(per_ob), "discharged": discharged,
            "evaluations": sum(r["paths"] for r in per_ob),
            "distinct_nontrivial": nontrivial,
            "rule": "evaluations = symbolic paths explored (each stands for the whole class of inputs that follow it); "
                    "distinct_nontrivial = obligations confirmed over >= 2 paths whose reachability twin produced a concretely replayed witness",
            "samples": [{"obligation": r["obligation"], "reachability_witness": r["witness"], "verdict": r["verdict"],
                         "paths": r["paths"]} for r in per_ob if r["witness"]][:12] or [{"note": "no witness"}],
            "exhaustive": False,
            "verdict_counts": counts,
            "functions_encoded": sorted({f for r in per_ob for f in r["functions"]}),
            "smt_queries": sum(r["smt_queries"] for r in per_ob),
            "solver_time_s": round(sum(r["smt_time_s"] for r in per_ob), 2),
            "cpu_s": round(sum(r["cpu_s"] or 0 for r in per_ob), 1),
            "partition_cover_checks": covers,
            "known_findings_replayed": known_records,
            "per_obligation": per_ob,
            "checker_cmd": "./check %s --tier %s" % (prop, a.tier),
            "trusted_base": ["crosshair-tool 0.0.110", "z3-solver 5.1.0 (wheel)", "chx/chfix.py patches", "CPython 3.12.1"],
        },
        "assumptions": assumptions,
        "wall_s": round(time.time() - t0, 2),
        "violations": len(violations),
    }
    if not a.no_evidence and not a.only:
        os.makedirs(EVID_DIR, exist_ok=True)
        with open(os.path.join(EVID_DIR, "%s.json" % prop), "w") as f:
            json.dump(evidence, f, indent=1)

    for r in per_ob:
        extra = ""
        if r["verdict"] != "confirmed":
            extra = " | " + " ; ".join(str(m)[:200] for m in r.get("messages", [])[:2])
        print("%-28s %-12s paths=%-5d cpu=%-7s wall=%-7s twin=%s%s" % (
            r["obligation"], r["verdict"], r["paths"], r["cpu_s"], r["wall_s"], r["twin"], extra))
    for c in covers:
        print("cover %s: %s" % (c["partition"], c["z3_cover_query"]))
    for line in known_lines:
        print(line)
    print("SUMMARY property=%s tier=%s obligations=%d discharged=%d %s wall=%.1fs" % (
        prop, a.tier, len(per_ob), discharged, counts, time.time() - t0))
    for o, path, r in violations:
        print("  counterexample %s args=%s -> %s" % (o.oid, r["cex"]["args"], r["cex"]["replay"].get("diag", "")[:300]))
        print("VIOLATION property=%s replay=%s" % (prop, path))
    return 1 if violations else 0


if __name__ == "__main__":
    sys.exit(main())
